"""C04 — serialization yields the JSON image prescribed by the type.
E1: types x values (model-built, independent of deserialize) x serialization options, against the
reference image model (vf/refmodel/ser.py)."""
from __future__ import annotations

import itertools
import json
from typing import Any, Dict, Iterator, List, Optional, Tuple

from .. import infra
from ..data import skeletons
from ..grammar import gen_types, well_formed
from ..refmodel.deser import MISSING, UNDEF, UNSPEC, Ctx, Unspecified, VAlts, VEnum, VObj, all_fields, conform, resolve
from ..refmodel.ser import SOpts, image, img_equal
from ..tast import AnyT, Coll, Con, EnumT, Gen, MapT, NewT, Obj, Prim, T, Tup, Uni, short, walk
from ..values import build
from . import deser_common as dc

import apischema
from apischema import serialize

PROP = "C04"
RULE = (
    "types: grammar of C01 (plus serialized methods / properties, serialization_if, serialization_default shapes); values: "
    "the typed images of every 0-deviation skeleton datum (built by the reference model, not by deserialize) plus "
    "variants not reachable by deserialization (Undefined / None / default-equal values substituted in every defaulted "
    "field, unset-tracking variants); options: exclude_none x exclude_defaults x exclude_unset x additional_properties x "
    "aliaser (full cross at level<=1, 6 covering vectors at level 2) + check_type / fall_back_on_any on well-typed values. "
    "Oracle: output made only of dict(str keys)/list/str/int/float/bool/None with exact classes, equal to the model image "
    "(sets modulo order), omission by ONE formula, serialize(v) == serialize(type(v), v). distinct_nontrivial counts "
    "distinct (ctor-pair shape, options, value index, set of emitted top-level keys) tuples."
)

FULL = [
    (en, ed, eu, ap, al)
    for en in (False, True)
    for ed in (False, True)
    for eu in (True, False)
    for ap in (False, True)
    for al in ("id", "camel", "custom")
]
PAIR = [
    (False, False, True, False, "id"),
    (True, False, True, True, "camel"),
    (False, True, False, False, "custom"),
    (True, True, True, False, "id"),
    (True, True, False, True, "custom"),
    (False, True, True, True, "camel"),
]


def enum_values(spec: T) -> Dict[str, Dict[str, Any]]:
    return {x.name: dict(x.members) for x in walk(spec) if isinstance(x, EnumT)}


def variants(spec: T, v: Any, ctx: Ctx) -> Iterator[Any]:
    """values derived from v that deserialization cannot produce: for the root object (and objects
    directly below it) substitute Undefined / None / the default in fields whose type allows it"""
    spec = resolve(spec, ctx)
    if isinstance(v, VAlts):
        v = v.first
    if isinstance(spec, Gen):
        ob = spec.obj
    elif isinstance(spec, Obj):
        ob = spec
    else:
        return
    if not isinstance(v, VObj):
        return
    from ..refmodel.ser import has_alt

    for f in all_fields(ob, ctx):
        if f.name not in v.fields or f.initvar:
            continue
        cands = []
        if has_alt(f.type, "undefined", ctx):
            cands.append(UNDEF)
        if has_alt(f.type, "none", ctx):
            cands.append(None)
        if f.optional and not (f.default_value is UNDEF and not has_alt(f.type, "undefined", ctx)):
            import copy

            cands.append(copy.deepcopy(f.default_value))
        for c in cands:
            cur = v.fields[f.name]
            if cur is c or (type(cur) is type(c) and cur == c):
                continue
            if v.ctor is not None:
                continue  # __post_init__ effects: the field values are not free
            nf = dict(v.fields)
            nf[f.name] = c
            yield VObj(v.cls, v.kind, nf, v.present, v.noinit)
    if ob.fields_set and v.present:
        for drop in list(v.present):
            f = next((x for x in all_fields(ob, ctx) if x.name == drop), None)
            if f is not None:
                # an optional field is left out of the constructor call; a required one is passed and then
                # unset (unset_fields), as a PATCH-style user would do
                yield VObj(v.cls, v.kind, dict(v.fields), set(v.present) - {drop}, v.noinit)


def build_value(spec: T, v: Any, mod, ctx: Ctx):
    """real value; with_fields_set classes are built from the present fields only so that the
    tracked set is the model's"""
    spec = resolve(spec, ctx)
    if isinstance(v, VAlts):
        v = v.first
    if isinstance(v, VObj):
        ob = ctx.env.get(v.cls)
        cls = getattr(mod, v.cls)
        kw = {}
        for k, x in (v.ctor if v.ctor is not None else v.fields).items():
            if x is MISSING or k in v.noinit:
                continue
            kw[k] = build_any(x, mod, ctx)
        if ob is not None and ob.fields_set and v.present is not None:
            import copy

            dflt = {f.name: f for f in all_fields(ob, ctx)}
            init_kw = {k: x for k, x in kw.items() if k in v.present or not dflt[k].optional}
            obj = cls(**init_kw)
            for k in init_kw:
                if k not in v.present:
                    apischema.fields.unset_fields(obj, k)
            # values of unset fields that differ from the default: set them without tracking
            for k, x in kw.items():
                if k not in init_kw and not _same(x, getattr(obj, k, None)):
                    obj.__dict__[k] = x
            return obj
        obj = cls(**kw)
        for k, x in v.fields.items():
            if k in v.noinit and x is not MISSING:
                object.__setattr__(obj, k, build_any(x, mod, ctx))
        return obj
    return build_any(v, mod, ctx)


def _same(a, b):
    try:
        return type(a) is type(b) and a == b
    except Exception:
        return False


def build_any(v, mod, ctx):
    if isinstance(v, VAlts):
        v = v.first
    if isinstance(v, VObj):
        return build_value(None, v, mod, ctx) if False else _build_obj(v, mod, ctx)
    if isinstance(v, VEnum):
        return getattr(mod, v.enum)[v.member]
    if v is UNDEF:
        return apischema.Undefined
    if isinstance(v, list):
        return [build_any(x, mod, ctx) for x in v]
    if isinstance(v, tuple):
        return tuple(build_any(x, mod, ctx) for x in v)
    if isinstance(v, set):
        return {build_any(x, mod, ctx) for x in v}
    if isinstance(v, frozenset):
        return frozenset(build_any(x, mod, ctx) for x in v)
    if isinstance(v, dict):
        return {build_any(k, mod, ctx): build_any(x, mod, ctx) for k, x in v.items()}
    return v


def _build_obj(v: VObj, mod, ctx):
    return build_value(Prim("none"), v, mod, ctx)


def json_only(x, path="") -> Optional[str]:
    if x is None or type(x) in (bool, int, float, str):
        return None
    if type(x) is list:
        for i, y in enumerate(x):
            r = json_only(y, f"{path}[{i}]")
            if r:
                return r
        return None
    if type(x) is dict:
        for k, y in x.items():
            if type(k) is not str:
                return f"{path}: non-str key {k!r}"
            r = json_only(y, f"{path}[{k!r}]")
            if r:
                return r
        return None
    return f"{path}: {type(x).__name__} {x!r}"


def values_of(spec: T, ctx: Ctx) -> List[Any]:
    out = []
    for d in skeletons(spec, ctx):
        r = conform(spec, d, ctx)
        if r is UNSPEC or not r.ok:
            continue
        out.append(r.value)
        for v2 in variants(spec, r.value, ctx):
            out.append(v2)
    return out


def run_type(i, label, spec, tier, st):
    env = dc.build_env(spec)
    ctx0 = Ctx(env=env)
    if well_formed(spec, ctx0):
        return
    lvl = dc.level_of(label)
    case = dc.Case(label, spec)
    try:
        rz = case.realize()
    except Exception as e:
        st.violation({"label": label, "signature": {"kind": "realize_error"}, "what": repr(e)[:300], "harness_error": True, "traceback": repr(e)})
        return
    st.count("types")
    if i % 101 == 0:
        st.sample({"type": short(spec), "label": label})
    vals = values_of(spec, ctx0)
    if not vals:
        st.count("no_value")
        return
    ev = enum_values(spec)
    opts = FULL if lvl <= 1 else PAIR
    root = resolve(spec, ctx0)
    reals = []
    for v in vals:
        try:
            reals.append(build_value(spec, v, rz.module, ctx0))
        except Exception as e:
            reals.append(e)
    for en, ed, eu, ap, al in opts:
        so = SOpts(exclude_none=en, exclude_defaults=ed, exclude_unset=eu, additional_properties=ap, aliaser=al, env=env, enum_values=ev)
        kw = dict(exclude_none=en, exclude_defaults=ed, exclude_unset=eu, additional_properties=ap, aliaser=dc.IMPL_ALIASERS[al])
        try:
            m = apischema.serialization_method(rz.tp, **kw)
            m_ct = apischema.serialization_method(rz.tp, check_type=True, **kw)
            m_fb = apischema.serialization_method(rz.tp, fall_back_on_any=True, **kw)
        except Exception as e:
            st.violation({"label": label, "type": short(spec), "signature": {"kind": "compile_error", "exc": type(e).__name__, "shape": dc.shape_of(label)}, "what": f"serialization_method raised {e!r}"[:300], "source": rz.source})
            break
        for vi, (v, real) in enumerate(zip(vals, reals)):
            if isinstance(real, Exception):
                st.count("value_not_buildable")
                continue
            try:
                exp = image(spec, v, so)
            except Unspecified:
                st.count("unspecified")
                continue
            base = {"label": label, "type": short(spec), "options": [en, ed, eu, ap, al], "value": repr(real)[:300]}
            try:
                out = m(real)
            except Exception as e:
                st.violation(dict(base, signature={"kind": "exception", "exc": type(e).__name__, "shape": dc.shape_of(label)}, what=f"serialize raised {e!r}"[:300], source=rz.source))
                continue
            keys = tuple(sorted(map(repr, out))) if isinstance(out, dict) else type(out).__name__
            st.case(dc.shape_of(label), (en, ed, eu, ap, al), vi, keys)
            j = json_only(out)
            if j:
                st.violation(dict(base, signature={"kind": "non_json_output", "shape": dc.shape_of(label)}, what=f"output contains a non-JSON value at {j}"[:300], observed=repr(out)[:300], source=rz.source))
                continue
            r = img_equal(exp, out)
            if r:
                kind = "omission" if "keys" in r else "image"
                st.violation(dict(base, signature={"kind": kind, "shape": dc.shape_of(label), "opts": [en, ed, eu]}, what=f"serialize gives {out!r}, model image {exp!r}: {r}"[:500], source=rz.source))
                continue
            for mode, mm in (("check_type", m_ct), ("fall_back_on_any", m_fb)):
                try:
                    o2 = mm(real)
                    if o2 != out:
                        st.violation(dict(base, signature={"kind": mode + "_changes_result", "shape": dc.shape_of(label)}, what=f"{mode}=True gives {o2!r} instead of {out!r} for a well-typed value"[:400], source=rz.source))
                except Exception as e:
                    st.violation(dict(base, signature={"kind": mode + "_exception", "exc": type(e).__name__, "shape": dc.shape_of(label)}, what=f"{mode}=True raised {e!r} on a well-typed value"[:300], source=rz.source))
            if isinstance(root, Obj) and root.kind != "typeddict" and not root.generic_params:
                try:
                    o3 = serialize(real, **kw)
                    if o3 != out:
                        st.violation(dict(base, signature={"kind": "untyped_serialize_differs", "shape": dc.shape_of(label)}, what=f"serialize(v) = {o3!r} != serialize(type(v), v) = {out!r}"[:400], source=rz.source))
                except Exception as e:
                    st.violation(dict(base, signature={"kind": "untyped_serialize_exception", "exc": type(e).__name__}, what=f"serialize(v) raised {e!r}"[:300], source=rz.source))
    case.drop()
    dc.periodic_reset(i)


DEQUE_SRC = '''
import collections
class Row(TypedDict):
    row_id: int
@dataclass
class Acct:
    acct_id: int = 0
@dataclass
class AdminAcct(Acct):
    level: int = 9
class Tint(Enum):
    RED = "r"
HexInt = NewType("HexInt", int)
@serializer
def hex_int(i: HexInt) -> str: return hex(i)
@dataclass
class HoldsDeque:
    q: typing.Deque[Acct] = field(default_factory=collections.deque)
ITEMS = {
    "Row": (Row, [{"row_id": 1}, {"row_id": 2}]),
    "Acct": (Acct, [Acct(1), AdminAcct(2)]),          # a subclass instance is serialized as the declared item type
    "Tint": (Tint, [Tint.RED]),
    "HexInt": (HexInt, [255, 16]),
    "Optional[Acct]": (Optional[Acct], [None, AdminAcct(3)]),
}
'''


def run_deques(st):
    """typed deques (the one standard collection serialized through a registered conversion): the image of Deque[X] is the
    image of List[X] on the same items, for item types whose typed image differs from the image by runtime class, under the
    three aliasers, bare and as a field"""
    import collections
    import typing

    from ..realize import PRELUDE, exec_source

    mod = exec_source(PRELUDE + DEQUE_SRC)
    for name, (tp, items) in mod.ITEMS.items():
        for al in ("id", "camel", "custom"):
            kw = {"aliaser": dc.IMPL_ALIASERS[al]}
            st.case("deque", name, al)
            try:
                exp = apischema.serialize(typing.List[tp], list(items), **kw)
                got = apischema.serialize(typing.Deque[tp], collections.deque(items), **kw)
                got2 = apischema.serialize(collections.deque[tp], collections.deque(items), **kw)
            except Exception as e:
                st.violation({"label": "deque:" + name, "signature": {"kind": "serialize_exception", "exc": type(e).__name__, "shape": "deque"}, "what": f"Deque[{name}] under {al}: {e!r}"[:300]})
                continue
            if got != exp or got2 != exp or type(got) is not list:
                st.violation({"label": "deque:" + name, "options": [al], "signature": {"kind": "image", "shape": "deque", "item": name}, "what": f"serialize(Deque[{name}], deque(items)) = {got!r} / {got2!r}, serialize(List[{name}], items) = {exp!r} (aliaser {al})"[:400]})
    h = mod.HoldsDeque(collections.deque([mod.Acct(1), mod.AdminAcct(2)]))
    exp = {"q": [{"acct_id": 1}, {"acct_id": 2}]}
    got = apischema.serialize(mod.HoldsDeque, h)
    if got != exp:
        st.violation({"label": "deque:field", "signature": {"kind": "image", "shape": "deque", "item": "field"}, "what": f"serialize(HoldsDeque) = {got!r}, expected {exp!r}"})
    import sys

    sys.modules.pop(mod.__name__, None)
    apischema.cache.reset()


LATE_SRC = """
@dataclass
class Pt:
    x: int = 1
    y: int = 2
@dataclass
class Pt3(Pt):
    z: int = 3
class Plain3(Pt3):
    pass
def reg_owner():
    def norm1(self) -> int: return self.x + self.y
    serialized(owner=Pt)(norm1)
def reg_func():
    @serialized
    def vol(p: Pt3) -> int: return p.x * p.y * p.z
def reg_alias():
    def tag(self) -> str: return "t%d" % self.x
    serialized("label", owner=Pt)(tag)
REG = {"owner": reg_owner, "func": reg_func, "alias": reg_alias}
"""

# registration -> (classes it applies to, output key, function of the instance)
LATE_MEMBERS = {
    "owner": ({"Pt", "Pt3", "Plain3"}, "norm1", lambda o: o.x + o.y),
    "func": ({"Pt3", "Plain3"}, "vol", lambda o: o.x * o.y * o.z),
    "alias": ({"Pt", "Pt3", "Plain3"}, "label", lambda o: "t%d" % o.x),
}


def run_late_members(st):
    """bounded histories on one family of classes: serialized methods registered from outside the class body (the two
    documented forms, with and without an alias) in every order, before / after a first serialization of every class of
    the family (every subset of 'warm-up' observations); after each step, the image of each class is its fields plus the
    members registered so far for it or a base — whatever was serialized before"""
    import sys
    import typing

    from ..realize import PRELUDE, exec_source

    regs = list(LATE_MEMBERS)
    histories = []
    for n in range(0, len(regs) + 1):
        for seq in itertools.permutations(regs, n):
            histories.append(seq)
    for seq in histories:
        for warm in (False, True):  # observe (and so compile) before each registration, or only at the end
            mod = exec_source(PRELUDE + LATE_SRC)
            try:
                done = []

                def observe(step):
                    for cname, val in (("Pt", mod.Pt(1, 2)), ("Pt3", mod.Pt3(2, 3, 4)), ("Plain3", mod.Plain3(3, 4, 5))):
                        exp = {"x": val.x, "y": val.y}
                        if cname != "Pt":
                            exp["z"] = val.z
                        for r in done:
                            classes, key, fn = LATE_MEMBERS[r]
                            if cname in classes:
                                exp[key] = fn(val)
                        cls = getattr(mod, cname)
                        st.case("late", seq, warm, step, cname)
                        try:
                            outs = {
                                "serialize(cls, v)": apischema.serialize(cls, val),
                                "serialize(v)": apischema.serialize(val),
                                "serialize(List[cls], [v])[0]": apischema.serialize(typing.List[cls], [val])[0],
                                "serialize(Pt, v) keys": None,
                            }
                        except Exception as e:
                            st.violation({"label": "late:" + cname, "signature": {"kind": "serialize_exception", "exc": type(e).__name__, "shape": "late_members"}, "what": f"{cname} after registrations {done} (history {seq}, warm={warm}): {e!r}"[:300]})
                            continue
                        for how, got in outs.items():
                            if got is not None and got != exp:
                                st.violation({"label": "late:" + cname, "signature": {"kind": "image", "shape": "late_members", "warm": warm, "how": how}, "what": f"{how} of {cname} after registering {done} (history {seq}, observed before each registration: {warm}) = {got!r}, expected {exp!r}"[:400]})

                if warm:
                    observe(0)
                for i, r in enumerate(seq):
                    mod.REG[r]()
                    done.append(r)
                    if warm or i == len(seq) - 1:
                        observe(i + 1)
                if not seq and not warm:
                    observe(0)
            finally:
                sys.modules.pop(mod.__name__, None)
                apischema.cache.reset()


def work(tier, widx, nworkers, st, extra):
    import os

    if widx == 0 and os.environ.get("VERIF_ONLY") in (None, "", "deque"):
        try:
            run_deques(st)
        except Exception:
            import traceback

            st.violation({"signature": {"kind": "harness_error"}, "harness_error": True, "what": "deques", "traceback": traceback.format_exc()[-2000:]})
    if widx == (1 % nworkers) and os.environ.get("VERIF_ONLY") in (None, "", "late"):
        try:
            run_late_members(st)
        except Exception:
            import traceback

            st.violation({"signature": {"kind": "harness_error"}, "harness_error": True, "what": "late members", "traceback": traceback.format_exc()[-2000:]})
    for i, label, spec in dc.my_types(tier, widx, nworkers):
        run_type(i, label, spec, tier, st)


def main(tier: str, t0: float) -> int:
    st = infra.run_pool("vf.checks.c04", tier)
    return infra.finish(
        PROP,
        tier,
        st,
        t0,
        rule=RULE,
        coverage_extra={"exhaustive": True, "bounds": {"nesting": 2}, "worlds": ["typed deques: image of Deque[X] == image of List[X] for 5 item types x 3 aliasers", "late members: every order of 0..3 serialized methods registered from outside the class body (owner=, typed first parameter, alias) x observed before each registration or only at the end x 3 classes of one family x 3 ways of serializing"]},
        assumptions=[
            "reference image model vf/refmodel/ser.py (aliases, collections as lists, enums by value, flattened merge, serialized methods, one omission formula)",
            "values are of their type (C04 quantifies over values of T)",
        ],
    )


def replay(path: str) -> int:
    v = json.load(open(path))
    for lab, spec in gen_types("thorough"):
        if lab == v["label"]:
            break
    else:
        return 2
    st = infra.Stats()
    run_type(1, lab, spec, "thorough", st)
    hits = [x for x in st.violations if x.get("signature") == v.get("signature")]
    for x in hits[:3]:
        print(f"VIOLATION property=C04 replay={path}")
        print(" ", x["what"])
    return 1 if hits else 0
