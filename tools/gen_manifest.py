#!/usr/bin/env python3
"""Regenerate MANIFEST.json from the table below (keeps it valid at all times)."""
import json, os, sys
HERE = os.path.dirname(os.path.dirname(os.path.abspath(__file__)))
sys.path.insert(0, HERE)
from tools.manifest_table import CHECKS, NOT_APPLICABLE  # noqa

RUN = "cd /verif && /venv/bin/python -m vf.run {id} --tier {tier}"
checks = []
for c in CHECKS:
    checks.append({
        "property_id": c["id"],
        "quick_cmd": RUN.format(id=c["id"], tier="quick"),
        "thorough_cmd": RUN.format(id=c["id"], tier="thorough"),
        "evidence_file": f"/verif/evidence/{c['id']}.json",
        "replay_cmd_template": "cd /verif && /venv/bin/python -m vf.run " + c["id"] + " --replay {path}",
        "engine": c["engine"],
        "level_claimed": {"category": "model_checking", "text": c["text"], "design_ref": c["design_ref"]},
        "level_note": c["note"],
        "technique": c["technique"],
    })
manifest = {
    "version": 1,
    "setup_cmd": "cd /verif && rm -rf _vendor && /venv/bin/pip install -q --no-index --find-links /opt/veriftools/wheels --target /verif/_vendor jsonschema && rm -rf /verif/_vendor/typing_extensions*",
    "hooks": {
        "guard": "APISCHEMA_VERIF",
        "enable": "no source hook is needed: checks import /repo's working tree directly (VERIF_REPO overrides the path); scheduling points come from sys.monitoring",
        "baseline_off_cmd": "cd /repo && /venv/bin/python -m pytest -ra -q -p no:cacheprovider --timeout=900 --continue-on-collection-errors",
        "source_commits": [],
        "add_only": True,
    },
    "engines": [
        {"name": "E1", "path": "/verif/vf/infra.py", "serves_properties": [c["id"] for c in CHECKS if c["engine"] == "E1"],
         "kind_free_text": "bounded-exhaustive conformance explorer: grammar of type terms x deviation-bounded data x option vectors, real code vs reference model / independent validator / relational law"},
        {"name": "E2", "path": "/verif/vf/e2.py", "serves_properties": [c["id"] for c in CHECKS if c["engine"] == "E2"],
         "kind_free_text": "explicit-state BFS over operation histories on fresh worlds of the real library"},
        {"name": "E3", "path": "/verif/vf/e3.py", "serves_properties": [c["id"] for c in CHECKS if c["engine"] == "E3"],
         "kind_free_text": "stateless preemption-bounded schedule explorer (sys.monitoring line events + semaphore baton) over real threads"},
    ],
    "checks": checks,
    "not_applicable": NOT_APPLICABLE,
    "notes": "see DESIGN.md; known_findings.json lists genuine defects (fixed by 'fix:' commits in /repo, or recorded)",
}
with open(os.path.join(HERE, "MANIFEST.json"), "w") as f:
    json.dump(manifest, f, indent=1)
    f.write("\n")
print("checks:", [c["id"] for c in CHECKS], "n/a:", [n["property_id"] for n in NOT_APPLICABLE])
