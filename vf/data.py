"""Data enumeration by deviation bounding.

skeletons(t): valid data for t (<=2 representatives per position, each-choice combined).
mutants(d, ...): every datum at <=k deviations from a skeleton: substitution of a pool atom at a
position, dropping/adding/duplicating an array element, dropping/adding an object key.
The generator never classifies data as valid or invalid: the reference model does."""
from __future__ import annotations

import copy
import math
import itertools
from typing import Any, Dict, Iterator, List, Sequence, Tuple

from .refmodel.deser import CLASS_ALIASERS, ALIASERS, Ctx, all_fields, deser_fields, field_ext_name, resolve
from .tast import (
    AnyT,
    Coll,
    Con,
    EnumT,
    F,
    Gen,
    Lit,
    MapT,
    NewT,
    Obj,
    Prim,
    Ref,
    Std,
    T,
    Tup,
    TVar,
    Uni,
    Unsup,
    walk,
)

U_POOL: List[Any] = [None, True, False, 0, 1, -1, 2, 3, 1.5, 1.0, "", "a", "ab", "1", [], {}]
CLASS_POOL: List[Any] = [None, True, 1, 1.5, "a", [], {}]  # one per JSON class


def _con_valid(base: T, cons: Dict[str, Any], ctx: Ctx) -> List[Any]:
    base = resolve(base, ctx)
    while isinstance(base, (NewT, Con)):
        if isinstance(base, Con):
            cons = {**base.cdict(), **cons}
        base = resolve(base.base, ctx)
    if isinstance(base, Prim) and base.kind in ("int", "float"):
        lo = cons.get("min", cons.get("exc_min", -1) + (1 if "exc_min" in cons else 0) if "exc_min" in cons else 0)
        if "min" in cons:
            lo = cons["min"]
        elif "exc_min" in cons:
            lo = cons["exc_min"] + 1
        else:
            lo = 0
        m = cons.get("mult_of", 1)
        if base.kind == "int" and isinstance(lo, float):
            lo = math.ceil(lo)
        if isinstance(m, float) and not m.is_integer():
            lo = math.ceil(lo / m) * m
            if base.kind == "int":
                while lo != int(lo):
                    lo += m
                lo = int(lo)
        else:
            while lo % m:
                lo += 1
        out = [lo]
        hi = lo + m
        if ("max" not in cons or hi <= cons["max"]) and ("exc_max" not in cons or hi < cons["exc_max"]):
            out.append(hi)
        if "exc_max" in cons and not lo < cons["exc_max"]:
            out = [cons["exc_max"] - 0.5] if base.kind == "float" else []
        if base.kind == "float":
            out = [float(x) if i == 0 else x for i, x in enumerate(out)]
        return out
    if isinstance(base, Prim) and base.kind == "str":
        pat = cons.get("pattern")
        lead = pat[1:] if pat and pat.startswith("^") else ""
        n = max(cons.get("min_len", 0), len(lead))
        s = (lead + "b" * n)[: max(n, len(lead))] if n else lead
        out = [s]
        if "max_len" not in cons or len(s) + 1 <= cons["max_len"]:
            out.append(s + "b")
        return out
    return None


def skeletons(t: T, ctx: Ctx, depth: int = 0, limit: int = 4) -> List[Any]:
    """valid data for t, smallest first"""
    t0 = t
    t = resolve(t, ctx)
    if isinstance(t, Prim):
        return {
            "int": [0, 1],
            "float": [1.5, 1],
            "str": ["a", ""],
            "bool": [True, False],
            "none": [None],
            "undefined": [],
        }[t.kind][:limit]
    if isinstance(t, AnyT):
        return [0, "a"]
    if isinstance(t, Unsup):
        return []
    if isinstance(t, Lit):
        return list(t.values)[:2]
    if isinstance(t, EnumT):
        return [v for _, v in t.members][:2]
    if isinstance(t, NewT):
        return skeletons(t.base, ctx, depth, limit)
    if isinstance(t, Con):
        cons = t.cdict()
        v = _con_valid(t.base, cons, ctx)
        if v is not None:
            return v[:limit]
        base = resolve(t.base, ctx)
        while isinstance(base, NewT):
            base = resolve(base.base, ctx)
        if isinstance(base, Coll):
            es = skeletons(base.elt, ctx, depth + 1, 2)
            n = cons.get("min_items", 0)
            hi = cons.get("max_items", n + 1)
            out = []
            for ln in range(n, hi + 1):
                if cons.get("unique") and ln > len(es):
                    break
                out.append([copy.deepcopy(es[i % len(es)]) for i in range(ln)] if es else [])
            return out[:limit]
        if isinstance(base, MapT):
            ks = key_samples(base.k, ctx)
            vs = skeletons(base.v, ctx, depth + 1, 2)
            n = cons.get("min_props", 0)
            hi = cons.get("max_props", n + 1)
            out = []
            for ln in range(n, hi + 1):
                if ln > len(ks):
                    break
                out.append({ks[i]: copy.deepcopy(vs[i % len(vs)]) for i in range(ln)} if vs else {})
            return out[:limit]
        if isinstance(base, Uni):
            out = []
            for a in base.alts:
                out.extend(skeletons(Con(a, t.cons), ctx, depth, 2))
            return out[:limit]
        if isinstance(base, Prim):
            return skeletons(base, ctx, depth, limit)
        return skeletons(t.base, ctx, depth, limit)
    if isinstance(t, Uni):
        out = []
        for a in t.alts:
            for s in skeletons(a, ctx, depth, 2)[: (2 if len(t.alts) <= 2 else 1)]:
                if not any(type(s) is type(o) and s == o for o in out):
                    out.append(s)
        return out[: max(limit, len(t.alts))]
    if isinstance(t, Coll):
        es = skeletons(t.elt, ctx, depth + 1, 2)
        out: List[Any] = [[]]
        if es and depth < 3:
            out.append([copy.deepcopy(es[0])])
            if len(es) > 1:
                out.append([copy.deepcopy(es[0]), copy.deepcopy(es[1])])
        return out[:limit]
    if isinstance(t, Tup):
        parts = [skeletons(e, ctx, depth + 1, 2) for e in t.elts]
        if any(not p for p in parts):
            return []
        out = [[copy.deepcopy(p[0]) for p in parts]]
        alt = [copy.deepcopy(p[-1]) for p in parts]
        if alt != out[0]:
            out.append(alt)
        return out
    if isinstance(t, MapT):
        ks = key_samples(t.k, ctx)
        vs = skeletons(t.v, ctx, depth + 1, 2)
        out = [{}]
        if ks and vs and depth < 3:
            out.append({ks[0]: copy.deepcopy(vs[0])})
            if len(ks) > 1 and len(vs) > 1:
                out.append({ks[0]: copy.deepcopy(vs[0]), ks[1]: copy.deepcopy(vs[1])})
        return out[:limit]
    if isinstance(t, Gen):
        sub = dict(ctx.tvars)
        sub.update(zip(t.obj.generic_params, t.args))
        return _obj_skeletons(t.obj, Ctx(**{**ctx.__dict__, "tvars": sub}), depth, limit)
    if isinstance(t, Obj):
        return _obj_skeletons(t, ctx, depth, limit)
    if isinstance(t, Std):
        return STD_VALID[t.kind][:limit]
    raise TypeError(t)


STD_VALID = {
    "uuid": ["12345678-1234-5678-1234-567812345678"],
    "date": ["2020-01-02"],
    "datetime": ["2020-01-02T03:04:05"],
    "time": ["03:04:05"],
    "decimal": [1.5, 1],
    "bytes": ["YWJj", ""],
    "path": ["/a/b"],
    "ipv4": ["127.0.0.1"],
    "ipv6": ["::1"],
    "ipv4if": ["127.0.0.1/32"],
    "ipv4net": ["127.0.0.0/8"],
    "ipv6if": ["::1/128"],
    "ipv6net": ["::/64"],
    "pattern": ["^a.*$"],
    "deque_int": [[], [1, 2]],
}


def key_samples(k: T, ctx: Ctx) -> List[str]:
    k = resolve(k, ctx)
    s = skeletons(k, ctx, 3, 2)
    out = [x for x in s if isinstance(x, str)]
    if isinstance(k, Prim) and k.kind == "str":
        return ["k1", "k2"]
    if len(out) == 1:
        out.append(out[0] + "b")
    return out


def _obj_skeletons(o: Obj, ctx: Ctx, depth: int, limit: int) -> List[Any]:
    if depth > 3:
        # recursion cut: only skeletons that do not need the recursive field
        pass
    fields = deser_fields(o, ctx)
    minimal: Dict[str, Any] = {}
    full: Dict[str, Any] = {}
    alt: Dict[str, Any] = {}
    ok_min = True
    for f in fields:
        ft = f.type
        if f.none_as_undefined:
            from .refmodel.deser import strip_none

            ft = strip_none(ft)
        if f.flatten:
            sk = skeletons(ft, ctx, depth + 1, 2) if depth < 3 else []
            if not sk:
                if not f.optional:
                    return []
                continue
            if not f.optional:
                minimal.update(copy.deepcopy(sk[0]))
            full.update(copy.deepcopy(sk[-1]))
            alt.update(copy.deepcopy(sk[0]))
            continue
        if f.props is not None:
            sk = skeletons(ft, ctx, depth + 1, 3) if depth < 3 else []
            key = "zz" if f.props == "" else _pattern_key(f.props)
            for s in sk:
                if isinstance(s, dict) and s:
                    v = next(iter(s.values()))
                    full[key] = copy.deepcopy(v)
                    break
            continue
        a = field_ext_name(o, f, ctx)
        sk = skeletons(ft, ctx, depth + 1, 2) if depth < 3 else []
        if depth >= 3 and not f.optional:
            sk = skeletons(ft, ctx, depth + 1, 2) if depth < 6 else []
        if not sk:
            if not f.optional:
                return []
            continue
        if not f.optional:
            minimal[a] = copy.deepcopy(sk[0])
        full[a] = copy.deepcopy(sk[0])
        alt[a] = copy.deepcopy(sk[-1])
    # dependent_required closure for the full variants is automatic (all present)
    out = [minimal]
    for cand in (full, alt):
        if not any(cand == o2 for o2 in out):
            out.append(cand)
    # dependent_required: minimal is fine (nothing optional present)
    return out[:limit]


def _pattern_key(p: str) -> str:
    return p[1:] + "1" if p.startswith("^") else p


# ------------------------------------------------------------------------------ positions
Path = Tuple[Any, ...]


def positions(d: Any, prefix: Path = ()) -> Iterator[Path]:
    yield prefix
    if isinstance(d, list):
        for i, x in enumerate(d):
            yield from positions(x, prefix + (i,))
    elif isinstance(d, dict):
        for k, x in d.items():
            yield from positions(x, prefix + (k,))


def get_at(d, path: Path):
    for p in path:
        d = d[p]
    return d


def set_at(d, path: Path, v):
    if not path:
        return v
    d = copy.deepcopy(d)
    cur = d
    for p in path[:-1]:
        cur = cur[p]
    cur[path[-1]] = v
    return d


def same(a, b) -> bool:
    if type(a) is not type(b):
        return False
    if isinstance(a, list):
        return len(a) == len(b) and all(same(x, y) for x, y in zip(a, b))
    if isinstance(a, dict):
        return a.keys() == b.keys() and all(same(a[k], b[k]) for k in a)
    if isinstance(a, float) and a != a:
        return b != b
    return a == b


def type_pool(t: T, ctx: Ctx) -> Tuple[List[Any], List[str]]:
    """extra atoms (literal / enum values, constraint boundaries +-1) and extra object keys
    (names, aliases, external names, pattern samples) relevant to t"""
    atoms: List[Any] = []
    keys: List[str] = ["zz"]
    seen = set()

    def visit(x: T):
        x = resolve(x, ctx)
        if id(x) in seen:
            return
        seen.add(id(x))
        if isinstance(x, Lit):
            atoms.extend(x.values)
        elif isinstance(x, EnumT):
            atoms.extend(v for _, v in x.members)
        elif isinstance(x, Con):
            for k, v in x.cons:
                if k in ("min", "max", "exc_min", "exc_max"):
                    atoms.extend([v - 1, v, v + 1, v + 0.5])
                elif k == "mult_of":
                    atoms.extend([v, v + 1, 2 * v])
                elif k in ("min_len", "max_len"):
                    atoms.extend(["a" * max(v - 1, 0), "a" * v, "a" * (v + 1)])
                elif k == "pattern":
                    atoms.extend(["zzz", _pattern_key(v)])
            visit(x.base)
        elif isinstance(x, NewT):
            visit(x.base)
        elif isinstance(x, Uni):
            for a in x.alts:
                visit(a)
        elif isinstance(x, Coll):
            visit(x.elt)
        elif isinstance(x, Tup):
            for a in x.elts:
                visit(a)
        elif isinstance(x, MapT):
            keys.extend(key_samples(x.k, ctx))
            visit(x.k)
            visit(x.v)
        elif isinstance(x, (Obj, Gen)):
            o = x.obj if isinstance(x, Gen) else x
            for f in all_fields(o, ctx):
                keys.append(f.name)
                if f.alias:
                    keys.append(f.alias)
                    keys.append(ctx.alias(f.alias))
                keys.append(ctx.alias(f.name))
                if o.class_aliaser:
                    keys.append(CLASS_ALIASERS[o.class_aliaser](f.alias or f.name))
                if f.flatten is False and f.props is None:
                    keys.append(field_ext_name(o, f, ctx))
                if f.props:
                    keys.append(_pattern_key(f.props))
                for k, v in f.cons:
                    if k in ("min", "max", "exc_min", "exc_max"):
                        atoms.extend([v - 1, v, v + 1])
                visit(f.type)
            if isinstance(x, Gen):
                for a in x.args:
                    visit(a)

    visit(t)
    ua, uk = [], []
    for a in atoms:
        if not any(same(a, b) for b in ua) and not any(same(a, b) for b in U_POOL):
            ua.append(a)
    for k in keys:
        if k not in uk:
            uk.append(k)
    return ua, uk


def single_mutants(d: Any, atoms: Sequence[Any], keys: Sequence[str], key_values: Sequence[Any] = (0, "a")) -> Iterator[Tuple[str, Path, Any]]:
    """every datum at exactly one deviation from d: (kind, path, mutant)"""
    for path in positions(d):
        cur = get_at(d, path)
        for a in atoms:
            if not same(a, cur):
                yield "subst", path, set_at(d, path, copy.deepcopy(a))
        if isinstance(cur, list):
            if cur:
                yield "drop", path, set_at(d, path, cur[:-1])
                yield "dup", path, set_at(d, path, cur + [copy.deepcopy(cur[0])])
                if len(cur) > 1:
                    yield "dropfirst", path, set_at(d, path, cur[1:])
            for a in (0, "a"):
                yield "append", path, set_at(d, path, cur + [a])
        elif isinstance(cur, dict):
            for k in list(cur):
                m = dict(cur)
                del m[k]
                yield "dropkey", path, set_at(d, path, m)
            for k in keys:
                if k not in cur:
                    for v in key_values:
                        m = dict(cur)
                        m[k] = v
                        yield "addkey", path, set_at(d, path, m)


def independent(p: Path, q: Path) -> bool:
    n = min(len(p), len(q))
    return p[:n] != q[:n]


def enumerate_data(t: T, ctx: Ctx, k: int = 1, wide: bool = True, extra_atoms: Sequence[Any] = ()) -> Iterator[Tuple[int, Any]]:
    """all data at <= k deviations from the skeletons of t; yields (deviations, datum);
    deduplicated structurally (with classes).  Root atoms of the universal pool are always
    included (they are 1-deviation substitutions at the root)."""
    sk = skeletons(t, ctx)
    extra, keys = type_pool(t, ctx)
    atoms1 = list(U_POOL) + list(extra) + list(extra_atoms) if wide else list(CLASS_POOL) + list(extra_atoms)
    seen: List[Any] = []
    seen_keys = set()

    def fresh(d) -> bool:
        kk = _canon(d)
        if kk in seen_keys:
            return False
        seen_keys.add(kk)
        return True

    for s in sk:
        if fresh(s):
            yield 0, s
    if k >= 1:
        firsts = []
        for s in sk:
            for kind, path, m in single_mutants(s, atoms1, keys):
                if fresh(m):
                    yield 1, m
        if k >= 2:
            atoms2 = list(CLASS_POOL) + list(extra)[:4]
            for s in sk:
                singles = list(single_mutants(s, atoms2, keys[:4], (0,)))
                # second deviation applied at an independent position of the *original* skeleton
                for (k1, p1, m1), (k2, p2, m2) in itertools.combinations(singles, 2):
                    if not independent(p1, p2):
                        continue
                    # combine: apply second mutation's new sub-datum at p2 in m1
                    try:
                        m = set_at(m1, p2, copy.deepcopy(get_at(m2, p2)))
                    except (KeyError, IndexError, TypeError):
                        continue
                    if fresh(m):
                        yield 2, m
        if k >= 3:
            atoms3 = [None, 1.5, "a"]
            for s in sk:
                singles = list(single_mutants(s, atoms3, keys[:2], (0,)))
                for a, b, c in itertools.combinations(singles, 3):
                    (_, p1, m1), (_, p2, m2), (_, p3, m3) = a, b, c
                    if not (independent(p1, p2) and independent(p1, p3) and independent(p2, p3)):
                        continue
                    try:
                        m = set_at(m1, p2, copy.deepcopy(get_at(m2, p2)))
                        m = set_at(m, p3, copy.deepcopy(get_at(m3, p3)))
                    except (KeyError, IndexError, TypeError):
                        continue
                    if fresh(m):
                        yield 3, m


def _canon(d) -> Any:
    if isinstance(d, list):
        return ("L",) + tuple(_canon(x) for x in d)
    if isinstance(d, dict):
        return ("D",) + tuple(sorted((repr(k), _canon(v)) for k, v in d.items()))
    if isinstance(d, float) and d != d:
        return ("nan",)
    return (type(d).__name__, repr(d))
