"""CLI: python -m vf.run Cxx --tier quick|thorough [--replay file]"""
from __future__ import annotations

import argparse
import importlib
import os
import sys
import time


def main(argv=None):
    ap = argparse.ArgumentParser()
    ap.add_argument("prop")
    ap.add_argument("--tier", default=os.environ.get("VERIF_TIER", "quick"), choices=["quick", "thorough"])
    ap.add_argument("--replay", default=None)
    ap.add_argument("--workers", type=int, default=None)
    ap.add_argument("--only", default=None, help="restrict to type labels containing this text (debug)")
    args = ap.parse_args(argv)
    if os.environ.get("VF_HASHSEED_PINNED") != "1":
        # str hashes are fixed at interpreter start: re-exec once with PYTHONHASHSEED derived from VERIF_SEED
        try:
            hs = str(int(os.environ.get("VERIF_SEED", "0")) % 4294967296)
        except ValueError:
            hs = "0"
        env = dict(os.environ, PYTHONHASHSEED=hs, VF_HASHSEED_PINNED="1")
        os.execve(sys.executable, [sys.executable, "-m", "vf.run"] + list(argv if argv is not None else sys.argv[1:]), env)
    if args.workers:
        os.environ["VERIF_WORKERS"] = str(args.workers)
    if args.only:
        os.environ["VERIF_ONLY"] = args.only
    from . import world  # noqa: F401  (fixes sys.path, imports the tree under test)

    mod = importlib.import_module(f"vf.checks.{args.prop.lower()}")
    if args.replay:
        return mod.replay(args.replay)
    t0 = time.time()
    return mod.main(args.tier, t0)


if __name__ == "__main__":
    sys.exit(main())
