"""Evidence writer, known-finding matcher, violation records, replay files, E1 pool runner."""
from __future__ import annotations

import hashlib
import json
import math
import multiprocessing as mp
import os
import sys
import time
import traceback
from collections import Counter
from typing import Any, Callable, Dict, Iterable, List, Optional, Tuple

VERIF_DIR = os.path.dirname(os.path.dirname(os.path.abspath(__file__)))
# (overridable so that runs against seeded / scratch trees do not clobber the committed evidence)
EVIDENCE_DIR = os.environ.get("VERIF_EVIDENCE_DIR") or os.path.join(VERIF_DIR, "evidence")
REPLAY_DIR = os.environ.get("VERIF_REPLAY_DIR") or os.path.join(VERIF_DIR, "replays")
FINDINGS_FILE = os.path.join(VERIF_DIR, "known_findings.json")


def seed() -> int:
    try:
        return int(os.environ.get("VERIF_SEED", "0"))
    except ValueError:
        return 0


def jsonable(x: Any, depth: int = 0) -> Any:
    if depth > 12:
        return repr(x)[:200]
    if x is None or isinstance(x, (bool, int, str)):
        if isinstance(x, int) and not isinstance(x, bool) and abs(x) > 2 ** 62:
            return repr(x)
        return x
    if isinstance(x, float):
        return x if math.isfinite(x) else repr(x)
    if isinstance(x, (list, tuple)):
        return [jsonable(a, depth + 1) for a in x]
    if isinstance(x, (set, frozenset)):
        return sorted((jsonable(a, depth + 1) for a in x), key=repr)
    if isinstance(x, dict):
        return {(k if isinstance(k, str) else repr(k)): jsonable(v, depth + 1) for k, v in x.items()}
    return repr(x)[:300]


# ------------------------------------------------------------------------------- findings
def load_findings() -> List[dict]:
    if not os.path.exists(FINDINGS_FILE):
        return []
    with open(FINDINGS_FILE) as f:
        return json.load(f)["findings"]


def match_finding(prop: str, signature: Dict[str, Any], findings: List[dict]) -> Optional[dict]:
    for f in findings:
        if f.get("property") != prop or f.get("status") != "known":
            continue
        sig = f.get("signature", {})
        if all(_sig_eq(signature.get(k), v) for k, v in sig.items()):
            return f
    return None


def _sig_eq(actual, expected) -> bool:
    if isinstance(expected, dict) and "any_of" in expected:
        return actual in expected["any_of"]
    if isinstance(expected, dict) and "contains" in expected:
        return isinstance(actual, str) and expected["contains"] in actual
    return actual == expected


# ------------------------------------------------------------------------------- stats
class Stats:
    """per-worker accumulation, merged in the parent"""

    def __init__(self):
        self.counters: Counter = Counter()
        self.distinct: set = set()
        self.samples: List[Any] = []
        self.violations: List[dict] = []
        self.sets: Dict[str, set] = {}
        self.max_samples = 6
        self.sig_counts: Dict[str, int] = {}
        self.max_violations = 400

    def count(self, key: str, n: int = 1):
        self.counters[key] += n

    def case(self, *key):
        """register one evaluated case; `key` is its (non-trivial) class for distinct counting"""
        self.counters["evaluations"] += 1
        self.distinct.add(hash(key))

    def note(self, name: str, value):
        self.sets.setdefault(name, set()).add(value)

    def sample(self, s):
        if len(self.samples) < self.max_samples:
            self.samples.append(jsonable(s))

    def violation(self, v: dict):
        self.counters["violations_raw"] += 1
        key = json.dumps(jsonable(v.get("signature", {})), sort_keys=True)
        n = self.sig_counts.get(key, 0)
        self.sig_counts[key] = n + 1
        if n < 3 and len(self.violations) < self.max_violations:
            self.violations.append(v)

    def merge(self, other: "Stats"):
        self.counters.update(other.counters)
        self.distinct |= other.distinct
        for k, v in other.sets.items():
            self.sets.setdefault(k, set()).update(v)
        for s in other.samples:
            if len(self.samples) < 12:
                self.samples.append(s)
        self.violations.extend(other.violations)
        for k, n in other.sig_counts.items():
            self.sig_counts[k] = self.sig_counts.get(k, 0) + n


# ------------------------------------------------------------------------------- pool
def _worker(args):
    mod_name, tier, widx, nworkers, extra = args
    import importlib

    os.environ.setdefault("PYTHONHASHSEED", "0")
    t0 = time.time()
    mod = importlib.import_module(mod_name)
    st = Stats()
    try:
        mod.work(tier, widx, nworkers, st, extra)
    except Exception:
        st.violation(
            {
                "signature": {"kind": "harness_error"},
                "what": "harness error in worker",
                "traceback": traceback.format_exc()[-3000:],
                "harness_error": True,
            }
        )
    st.counters["worker_s_x1000"] += int((time.time() - t0) * 1000)
    return st


def run_pool(mod_name: str, tier: str, nworkers: Optional[int] = None, extra: Any = None) -> Stats:
    nworkers = nworkers or int(os.environ.get("VERIF_WORKERS", "0")) or min(16, os.cpu_count() or 4)
    total = Stats()
    if nworkers == 1:
        total.merge(_worker((mod_name, tier, 0, 1, extra)))
        return total
    ctx = mp.get_context("fork")
    with ctx.Pool(nworkers) as pool:
        for st in pool.imap_unordered(_worker, [(mod_name, tier, i, nworkers, extra) for i in range(nworkers)]):
            total.merge(st)
    return total


# ------------------------------------------------------------------------------- reporting
def write_replay(prop: str, v: dict) -> str:
    os.makedirs(REPLAY_DIR, exist_ok=True)
    body = json.dumps(jsonable(v), sort_keys=True, indent=1)
    h = hashlib.sha1(body.encode()).hexdigest()[:12]
    path = os.path.join(REPLAY_DIR, f"{prop}-{h}.json")
    with open(path, "w") as f:
        f.write(body)
    return os.path.relpath(path, VERIF_DIR)


def finish(
    prop: str,
    tier: str,
    st: Stats,
    t0: float,
    *,
    rule: str,
    coverage_extra: Optional[dict] = None,
    assumptions: Optional[List[str]] = None,
    mc_keys: Optional[dict] = None,
) -> int:
    """classify violations against known findings, write evidence, print lines, return exit code"""
    findings = load_findings()
    known_hits: Dict[str, int] = Counter()
    counted_sigs: set = set()
    new: List[dict] = []
    harness_errors = [v for v in st.violations if v.get("harness_error")]
    for v in st.violations:
        if v.get("harness_error"):
            continue
        f = match_finding(prop, v.get("signature", {}), findings)
        if f is not None:
            known_hits[f["what"]] += 0
            sigkey = json.dumps(jsonable(v.get("signature", {})), sort_keys=True)
            if sigkey not in counted_sigs:
                counted_sigs.add(sigkey)
                known_hits[f["what"]] += st.sig_counts.get(sigkey, 1)
        else:
            new.append(v)
    # group new violations by signature
    groups: Dict[str, List[dict]] = {}
    for v in new:
        groups.setdefault(json.dumps(jsonable(v.get("signature", {})), sort_keys=True), []).append(v)
    lines = []
    for what, n in sorted(known_hits.items()):
        lines.append(f"KNOWN-FINDING: property={prop} {what} [{n} cases]")
    replay_paths = []
    for sig, vs in sorted(groups.items()):
        ncases = st.sig_counts.get(sig, len(vs))
        path = write_replay(prop, dict(vs[0], property=prop, tier=tier, similar_cases=ncases))
        replay_paths.append(path)
        lines.append(f"VIOLATION property={prop} replay={path}")
        lines.append(f"  signature={sig} cases={ncases} what={vs[0].get('what')}")
    for v in harness_errors[:3]:
        path = write_replay(prop, dict(v, property=prop, tier=tier))
        lines.append(f"HARNESS-ERROR property={prop} replay={path}")
        lines.append(v.get("traceback", "")[-1500:])
    cov = {
        "evaluations": int(st.counters.get("evaluations", 0)),
        "distinct_nontrivial": len(st.distinct),
        "rule": rule,
        "samples": st.samples or [{"note": "no sample recorded"}],
        "counters": {k: int(v) for k, v in sorted(st.counters.items())},
        "known_findings_hit": dict(known_hits),
        "new_violation_signatures": len(groups),
    }
    for k, v in st.sets.items():
        cov[k] = sorted(map(str, v))[:400]
    if coverage_extra:
        cov.update(coverage_extra)
    if mc_keys:
        cov.update(mc_keys)
    ev = {
        "property_id": prop,
        "tier": tier,
        "seed": seed(),
        "level": "model_checking",
        "coverage": cov,
        "assumptions": assumptions or [],
        "wall_s": round(time.time() - t0, 2),
        "violations": len(groups),
    }
    os.makedirs(EVIDENCE_DIR, exist_ok=True)
    with open(os.path.join(EVIDENCE_DIR, f"{prop}.json"), "w") as f:
        json.dump(jsonable(ev), f, indent=1, sort_keys=True)
        f.write("\n")
    for ln in lines:
        print(ln)
    print(
        f"{prop} tier={tier} evaluations={cov['evaluations']} distinct={cov['distinct_nontrivial']} "
        f"violations={len(groups)} known={sum(known_hits.values())} wall={ev['wall_s']}s"
    )
    sys.stdout.flush()
    if harness_errors:
        return 2
    return 1 if groups else 0
