#!/usr/bin/env python3
"""Write one brief per property for a new wave of seeded changes (sub-agents get only this text and a scratch worktree).

usage: tools/gen_wave_prompts.py <wave number>   ->  /tmp/w<N>-prompts/Cxx.txt, worktrees /tmp/w<N>-Cxx must be created by
`git -C /repo worktree add --detach /tmp/w<N>-Cxx HEAD`.  Each brief holds the property (statement, quantifier, anchors), what to
produce (change + demo.py + MUTATION.md with sections a-d), and a one-paragraph summary of every earlier change of that property
(from seeded/S*-Cxx/NOTES.md section (a)), asking for a different mechanism.  `git stash` is forbidden (shared by worktrees)."""
import json, os, re, sys

VERIF = os.path.dirname(os.path.dirname(os.path.abspath(__file__)))
wave = int(sys.argv[1])
out = f"/tmp/w{wave}-prompts"
os.makedirs(out, exist_ok=True)
props = {json.loads(l)["id"]: json.loads(l) for l in open(os.path.join(VERIF, "properties.jsonl"))}
for pid, p in props.items():
    earlier = []
    for w in range(1, wave):
        d = os.path.join(VERIF, "seeded", f"S{w}-{pid}")
        if not os.path.isdir(d):
            continue
        files, note = [], ""
        try:
            files = json.load(open(d + "/meta.json")).get("files", [])
        except Exception:
            pass
        if os.path.exists(d + "/NOTES.md"):
            t = open(d + "/NOTES.md").read()
            m = re.search(r"\(a\)[^\n]*\n(.*?)(?=\n## |\Z)", t, re.S)
            body = re.sub(r"```.*?```", "[code]", (m.group(1) if m else t).strip(), flags=re.S)
            note = " ".join(body.split())[:450]
        earlier.append(f"- change {w}: files {', '.join(files)} — {note}")
    wt = f"/tmp/w{wave}-{pid}"
    txt = f"""You are helping test a verification framework for the Python library wyfo/apischema. Your job is to write ONE deliberately subtle, realistic, property-breaking change ("seeded defect") to the library.

Your scratch git worktree of the library is {wt} (work ONLY there; never touch /repo or /verif, do not read anything under /verif). Python with all dependencies: /venv/bin/python (3.12). Run things with cwd={wt} (NOT inside {wt}/apischema, whose dataclasses.py shadows the stdlib) and check `python -c "import apischema; print(apischema.__file__)"`. No network.

The property that the library must satisfy (and which your change must break):

ID: {pid}
Title: {p['title']}
Statement: {p['statement']}
Quantified over: {p['quantifier']['text']}
Why ordinary tests cannot settle it: {p['why_tests_cant']}
Code anchors: {json.dumps(p['anchors'])}

What to produce:
1. An uncommitted change under {wt}/apischema that breaks the property while the library still imports and `cd {wt} && /venv/bin/python -m pytest -q -p no:cacheprovider` still reports 283 passed.
2. It must look like something a maintainer could plausibly write and need something SPECIFIC to manifest (a multi-step sequence, an unusual but legal input or type, an option combination, a second use of a compiled method, a particular interleaving, two cooperating sites); basic behaviour must stay right.
3. {wt}/demo.py: deterministic, exits 0 on the unchanged library and non-zero with the change. Verify both with `git diff -- apischema > /tmp/w{wave}-{pid}.p.diff; git checkout -- apischema; <run>; git apply /tmp/w{wave}-{pid}.p.diff; <run>` (do NOT use `git stash`: it is shared with other worktrees in use).
4. {wt}/MUTATION.md with sections "(a) What was changed, and why it looks plausible", "(b) What is needed for the breakage to manifest", "(c) How it was verified", "(d) Defects of the UNCHANGED library noticed on the way" (minimal reproducers, or 'none').

Earlier rounds already produced these changes for this property; use a DIFFERENT mechanism, preferably another part of the code and another kind of trigger:
{chr(10).join(earlier)}

Keep the diff small (3-30 lines). Finish with a short report: the diff, the trigger, the pytest tail line, the demo exit codes without / with the change.
"""
    open(os.path.join(out, pid + ".txt"), "w").write(txt)
print(out)
