"""C02 — rejections report every violation once, at its location.
E1 over the rejected part of the C01 space, with k<=3 simultaneous independent deviations."""
from __future__ import annotations

import hashlib
import itertools
import json
import os
import subprocess
import sys
import time
from collections import Counter, OrderedDict
from typing import Any, Dict, List, Tuple

from .. import infra
from ..data import enumerate_data
from ..grammar import gen_types, well_formed
from ..realize import realize
from ..refmodel.deser import DEFAULT_ERRORS, UNSPEC, WILD, Ctx, conform, deser_fields, field_ext_name, strip_none
from ..tast import Coll, Con, Gen, MapT, NewT, Obj, Prim, Tup, Uni, short
from . import deser_common as dc

import apischema
from apischema import ValidationError, settings

PROP = "C02"
RULE = (
    "same type grammar and data enumeration as C01 (k<=2 everywhere at level<=1, k<=3 independent deviations at level<=1 in "
    "thorough; level 2: k<=1 quick, k<=2 thorough); every rejected datum is a case: the multiset of (loc, message) must equal "
    "the reference model's, the list must be in own-messages-then-sorted-children order, from_errors must round-trip, and the "
    "errors below each child position must equal the child's own errors (compositional check on the real code); a second "
    "pass uses a custom settings.errors catalogue (every message replaced, one by a callable); digests of all error lists "
    "are compared between two interpreters with different PYTHONHASHSEED; history pass on the same compiled method: every "
    "datum again carried by OrderedDict / list subclasses (same errors), then every rejected datum again (same errors as the "
    "first time). Discriminated unions (11 unions of C13's world) x 27 field-state bodies x 0..2 unexpected properties x "
    "every mapped key: the error list equals, in order, the one of the named alternative alone. Unions of alternatives "
    "of the same JSON class (two objects sharing their keys, two lists, two mappings; both orders). A class with two "
    "validators: every ordered pair of 48 data on one compiled method (validator messages next to structural errors). Arrays of 12 elements with every pair of ill-typed positions "
    "(children in numeric key order). distinct_nontrivial counts distinct "
    "(ctor-pair shape, options, deviations, number of error entries, set of message kinds) tuples."
)

CUSTOM = {
    "minimum": "E-min {}",
    "maximum": "E-max {}",
    "exclusive_minimum": "E-xmin {}",
    "exclusive_maximum": "E-xmax {}",
    "multiple_of": "E-mult {}",
    "min_length": "E-minlen {}",
    "max_length": "E-maxlen {}",
    "pattern": "E-pat {}",
    "min_items": lambda c, d: f"E-minitems {c} got {len(d)}",
    "max_items": "E-maxitems {}",
    "unique_items": "E-unique",
    "min_properties": "E-minprops {}",
    "max_properties": "E-maxprops {}",
    "one_of": "E-oneof {}",
    "unexpected_property": "E-unexpected",
    "missing_property": "E-missing",
}


def msg_kind(m: str) -> str:
    return m.split(" ")[0] + (m.split("(")[-1] if "(" in m else "")


def loc_key(loc):
    return tuple((type(k).__name__, k) for k in loc)


def compare_errors(impl: List[Tuple[tuple, str]], model: List[Tuple[tuple, Any]]):
    """None if the multisets agree (model WILD entries match >=1 message at that loc)"""
    by_loc_i: Dict[tuple, List[str]] = {}
    for loc, m in impl:
        by_loc_i.setdefault(loc, []).append(m)
    by_loc_m: Dict[tuple, List[Any]] = {}
    for loc, m in model:
        by_loc_m.setdefault(loc, []).append(m)
    for loc in set(by_loc_i) | set(by_loc_m):
        a, b = by_loc_i.get(loc, []), by_loc_m.get(loc, [])
        if WILD in b:
            if not a:
                return "missing", loc
            continue
        ca, cb = Counter(a), Counter(b)
        if ca != cb:
            if not a:
                return "missing", loc
            if not b:
                return "spurious", loc
            if sum(ca.values()) > sum(cb.values()):
                return "extra_message", loc
            if sum(ca.values()) < sum(cb.values()):
                return "lost_message", loc
            return "different_message", loc
    return None


def ordered(impl: List[Tuple[tuple, str]]) -> bool:
    """own messages first, then children in sorted key order == lexicographic order of locs"""
    try:
        locs = [loc for loc, _ in impl]
        return all(locs[i] <= locs[i + 1] for i in range(len(locs) - 1))
    except TypeError:
        return True  # mixed key types cannot be ordered: C03's business


def children_of(spec, d, ctx: Ctx):
    """(key, child spec, child datum) for the root's direct children, where attribution is unambiguous"""
    t = dc.resolve(spec, ctx)
    cons = {}
    while isinstance(t, (NewT, Con)):
        t = dc.resolve(t.base, ctx)
    out = []
    if isinstance(t, Coll) and type(d) is list:
        for i, x in enumerate(d):
            out.append((i, t.elt, x))
    elif isinstance(t, Tup) and type(d) is list and len(d) == len(t.elts):
        for i, x in enumerate(d):
            out.append((i, t.elts[i], x))
    elif isinstance(t, MapT) and type(d) is dict:
        for k, x in d.items():
            if type(k) is str and conform(t.k, k, ctx).ok:
                out.append((k, t.v, x))
    elif isinstance(t, Obj) and type(d) is dict:
        for f in deser_fields(t, ctx):
            if f.flatten or f.props is not None:
                continue
            if (f.fbod or ctx.fall_back_on_default) and f.optional:
                continue
            a = field_ext_name(t, f, ctx)
            if a in d:
                ft = strip_none(f.type) if f.none_as_undefined else f.type
                out.append((a, Con(ft, f.cons) if f.cons else ft, d[a]))
    return out


class Digest:
    def __init__(self):
        self.h = hashlib.sha256()
        self.n = 0

    def add(self, *parts):
        self.h.update(repr(parts).encode())
        self.n += 1


class _ListSub(list):
    pass


def container_subclasses(d):
    """the same JSON datum carried by strict subclasses of dict / list (what json.load(object_pairs_hook=OrderedDict) or a
    framework's own list type hand over); scalars are left alone"""
    if isinstance(d, dict):
        return OrderedDict((k, container_subclasses(v)) for k, v in d.items())
    if isinstance(d, list):
        return _ListSub(container_subclasses(v) for v in d)
    return d


def has_container(d):
    return isinstance(d, (dict, list))


def history_pass(case, method, data, first_errors, st, optkey):
    """E2-style two-step histories on ONE compiled method: (the datum carried by container subclasses) ; (every rejected
    datum again). The error list of a datum is a function of the datum, not of what the method saw before."""
    base = {"label": case.label, "type": short(case.spec), "options": list(map(str, optkey))}
    for d in data:
        if not has_container(d):
            continue
        key = repr(d)
        ck, cout = dc.run_impl(method, container_subclasses(d))
        st.count("history_subclass_runs")
        if ck == "err" and key in first_errors:
            try:
                got = dc.impl_errors(cout)
            except Exception:
                continue
            if got != first_errors[key]:
                st.violation(dict(base, datum=key, signature={"kind": "container_subclass_errors", "shape": dc.shape_of(case.label)},
                                  what=f"the same datum carried by OrderedDict/list subclasses is rejected with other errors: {got[:4]} vs {first_errors[key][:4]}"[:400],
                                  source=case.realize().source))
    for d in data:
        key = repr(d)
        if key not in first_errors:
            continue
        ck, cout = dc.run_impl(method, d)
        st.count("history_reruns")
        try:
            got = dc.impl_errors(cout) if ck == "err" else ck
        except Exception:
            continue
        if got != first_errors[key]:
            st.violation(dict(base, datum=key, signature={"kind": "history_dependent_errors", "shape": dc.shape_of(case.label)},
                              what=f"errors of a datum changed after the method deserialized other data: {got if isinstance(got, str) else got[:4]} vs first {first_errors[key][:4]}"[:400],
                              source=case.realize().source))


def check_one(case: dc.Case, ctx: Ctx, method, d, dev, st, optkey, child_methods=None, digest=None, record=None):
    ref = conform(case.spec, d, ctx)
    if ref is UNSPEC:
        st.count("unspecified")
        return
    if ref.ok:
        st.count("accepted_skipped")
        return
    kind, out = dc.run_impl(method, d)
    if kind != "err":
        st.count("not_rejected_by_impl(C01/C03 report it)")
        return
    try:
        impl = dc.impl_errors(out)
    except Exception as e:
        st.count("errors_not_computable(C03 reports it)")
        return
    model = ref.e.flat()
    if record is not None:
        record[repr(d)] = impl
    if digest is not None:
        digest.add(case.label, repr(d), impl)
    st.case(dc.shape_of(case.label), optkey, dev, len(impl), tuple(sorted({msg_kind(m) for _, m in impl})))
    base = {"label": case.label, "type": short(case.spec), "options": list(map(str, optkey)), "datum": repr(d)}

    def viol(kind_, what, **kw):
        sig = {"kind": kind_}
        sig.update(kw.pop("sig", {}))
        st.violation(dict(base, signature=sig, what=what, observed=impl[:8], expected=[(l, m) for l, m in model][:8], source=case.realize().source, **kw))

    r = compare_errors(impl, model)
    if r is not None:
        why, loc = r
        viol(
            "errors_mismatch",
            f"errors differ from the model ({why} at {list(loc)}): impl={impl[:4]} model={model[:4]}"[:400],
            sig={"why": why, "node": dc.node_at(case.spec, loc, ctx), "dclass": dc.dclass(dc.get_loc(d, loc))},
        )
    if not ordered(impl):
        viol("order", f"errors not in own-then-sorted-children order: {impl[:6]}", sig={"shape": dc.shape_of(case.label)})
    try:
        rt = ValidationError.from_errors(out.errors).errors
        if rt != out.errors:
            viol("from_errors", f"from_errors(errors).errors differs: {rt[:4]} vs {out.errors[:4]}", sig={"shape": dc.shape_of(case.label)})
    except TypeError:
        pass
    if child_methods is not None:
        for key, cspec, cd in children_of(case.spec, d, ctx):
            cm = child_methods(cspec)
            if cm is None:
                continue
            ck, cout = dc.run_impl(cm, cd)
            sub = [(loc[1:], m) for loc, m in impl if loc[:1] == (key,)]
            if ck == "err":
                exp = dc.impl_errors(cout)
            elif ck == "ok":
                exp = []
            else:
                continue
            st.count("compositional_checks")
            if Counter(sub) != Counter(exp):
                viol(
                    "compositional",
                    f"errors below {key!r} = {sub[:4]} but the child alone gives {exp[:4]}"[:400],
                    sig={"node": dc.node_at(case.spec, (key,), ctx), "lost": len(exp) > len(sub)},
                )


def run_type(i, label, spec, tier, st, catalogue=None, digest=None):
    env_ctx = Ctx(env=dc.build_env(spec))
    if well_formed(spec, env_ctx):
        return
    case = dc.Case(label, spec)
    lvl = dc.level_of(label)
    try:
        case.realize()
    except Exception as e:
        st.violation({"label": label, "signature": {"kind": "realize_error"}, "what": repr(e)[:300], "harness_error": True, "traceback": repr(e)})
        return
    st.count("types")
    if i % 101 == 0:
        st.sample({"type": short(spec), "label": label})
    child_cache: Dict[str, Any] = {}
    extra_mods = []

    def child_methods_for(ap, fb, al, ctx):
        def get(cspec):
            rs = dc.resolve(cspec, ctx)
            key = repr(rs)
            if key not in child_cache:
                try:
                    rz = realize(rs, env=case.env)
                    extra_mods.append(rz)
                    child_cache[key] = apischema.deserialization_method(
                        rz.tp, additional_properties=ap, fall_back_on_default=fb, aliaser=dc.IMPL_ALIASERS[al]
                    )
                except Exception:
                    child_cache[key] = None
            return child_cache[key]

        return get

    errors = dict(DEFAULT_ERRORS) if catalogue is None else dict(catalogue)
    if catalogue is not None or digest is not None:
        opts = [(False, False, "id")]
    else:
        opts = dc.FULL_OPTS if lvl <= 1 else dc.PAIR_OPTS
    if lvl <= 1:
        k = 3 if tier == "thorough" else 2
    else:
        k = 2 if tier == "thorough" else 1
    if catalogue is not None or digest is not None:
        k = 1
    first = True
    for ap, fb, al in opts:
        ctx = case.ctx(ap, fb, al, errors=errors)
        try:
            method = case.method(ap, fb, al)
        except Exception:
            st.count("compile_error(C01 reports it)")
            break
        cm = child_methods_for(ap, fb, al, ctx) if (first and catalogue is None and digest is None) else None
        child_cache.clear()
        hist = first and catalogue is None and digest is None
        record: Dict[str, Any] = {} if hist else None
        data = []
        for dev, d in enumerate_data(spec, ctx, k=k if first else 1, wide=first or lvl <= 1):
            check_one(case, ctx, method, d, dev, st, (ap, fb, al) if catalogue is None else ("custom_errors",), cm, digest, record)
            if hist:
                data.append(d)
        if hist and record:
            history_pass(case, method, data, record, st, (ap, fb, al))
        first = False
    for rz in extra_mods:
        rz.drop()
    case.drop()
    dc.periodic_reset(i)


def set_catalogue(cat):
    for k, v in cat.items():
        setattr(settings.errors, k, v)
    apischema.cache.reset()  # settings.errors is not cache-aware on the unchanged tree (C09's business)


def run_discriminated(st):
    """discriminated unions (C13's world): the errors of the union on d are, exactly and in order, the errors of the
    alternative the discriminator names on d (without the discriminator key when the alternative does not declare it),
    for every combination of field states {absent, valid, invalid} and 0..2 unexpected properties"""
    import itertools

    from ..realize import PRELUDE, exec_source
    from .c13 import DISC_SRC

    mod = exec_source(PRELUDE + DISC_SRC)
    bodies = []
    for states in itertools.product((None, 1, "bad"), repeat=3):
        for extra in ((), ("zz",), ("zz", "yy")):
            b = {k: v for k, v in zip(("x", "n", "v"), states) if v is not None}
            b.update({k: 0 for k in extra})
            bodies.append(b)
    for name, (utp, key, mapping, declares) in mod.EXPECT.items():
        for ap in (False, True):
            try:
                um = apischema.deserialization_method(utp, additional_properties=ap)
            except Exception as e:
                st.violation({"label": name, "signature": {"kind": "disc_compile", "union": name}, "what": f"{name}: {e!r}"[:300]})
                continue
            for k in list(mapping) + ["nope", "<absent>"]:
                for body in bodies:
                    d = dict(body)
                    if k != "<absent>":
                        d[key] = k
                    st.case("disc", name, ap, k, tuple(sorted(body.items(), key=repr)))
                    kind, out = dc.run_impl(um, dict(d))
                    base = {"label": "disc:" + name, "datum": repr(d), "options": [str(ap)]}
                    if kind == "exc":
                        st.count("disc_exception(C03 reports it)")
                        continue
                    got = dc.impl_errors(out) if kind == "err" else None
                    alt = mapping.get(k)
                    if alt is None:
                        if got is None or [loc for loc, _ in got] != [(key,)]:
                            st.violation(dict(base, signature={"kind": "disc_key_error", "union": name, "absent": k == "<absent>"}, what=f"{name} <- {d!r}: expected one error at [{key!r}], got {got}"[:400]))
                        continue
                    d_alt = dict(d)
                    if alt not in declares:
                        d_alt.pop(key, None)
                    ak, aout = dc.run_impl(apischema.deserialization_method(alt, additional_properties=ap), d_alt)
                    if ak == "exc":
                        continue
                    exp = dc.impl_errors(aout) if ak == "err" else None
                    if got != exp:
                        st.violation(
                            dict(
                                base,
                                signature={"kind": "disc_errors_differ", "union": name, "alt": alt.__name__, "lost": bool(exp) and (got is None or len(got) < len(exp))},
                                what=f"{name} <- {d!r}: errors {got} but {alt.__name__} alone on {d_alt!r} gives {exp}"[:500],
                            )
                        )
    import sys

    sys.modules.pop(mod.__name__, None)


def same_class_unions():
    """unions whose alternatives have the same JSON class (two objects sharing their keys, two lists, two mappings), in both
    orders: they are tried in turn (no dispatch by class) and the errors of every alternative are merged location by location"""
    from ..tast import F, INT, STR

    def obj(n, vt):
        return Obj("dataclass", n, (F("values", vt), F("name", STR)))

    batch, single, deep = obj("UBatch", Coll("list", INT)), obj("USingle", STR), obj("UDeep", MapT("dict", STR, Coll("list", INT)))
    pairs = {
        "batch_single": (batch, single),
        "batch_deep": (batch, deep),
        "deep_single": (deep, single),
        "lists": (Coll("list", INT), Coll("list", STR)),
        "lists_nested": (Coll("list", Coll("list", INT)), Coll("list", STR)),
        "maps": (MapT("dict", STR, INT), MapT("dict", STR, Coll("list", INT))),
    }
    for name, (a, b) in pairs.items():
        yield f"sameclass_union[{name}]", Uni((a, b))
        yield f"sameclass_union_rev[{name}]", Uni((b, a))


VALIDATOR_SRC = '''
@dataclass
class Span:
    low: int = field(default=0)
    high: int = field(default=10)
    label: str = field(default="")
    @validator
    def ordered(self):
        if self.low > self.high:
            raise ValidationError("low is greater than high")
    @validator(label)
    def short(self):
        if len(self.label) > 3:
            raise ValidationError("label too long")
'''


def run_validator_world(st):
    """class validators next to structural errors: for every datum of {low, high, label} x {absent, valid, violating, ill-typed}
    the error list is the structural errors plus the message of every validator whose fields are all valid and not all
    defaulted — whatever was deserialized before with the same method (every datum is fed after every other datum)"""
    import itertools

    from ..realize import PRELUDE, exec_source

    mod = exec_source(PRELUDE + VALIDATOR_SRC)
    states = {"low": {"absent": None, "valid": 1, "violating": 20, "ill": "x"}, "high": {"absent": None, "valid": 5, "ill": None}, "label": {"absent": None, "valid": "ab", "violating": "abcdef", "ill": 7}}
    data = []
    for combo in itertools.product(*[list(v.items()) for v in states.values()]):
        d = {k: val for k, (sname, val) in zip(states, combo) if sname != "absent"}
        data.append((dict(zip(states, [c[0] for c in combo])), d))

    def expected(kinds, d):
        errs = []
        low, high = d.get("low", 0), d.get("high", 10)
        ill = {k for k, s_ in kinds.items() if s_ == "ill"}
        if not ({"low", "high"} & ill) and ({"low", "high"} & set(d)) and low > high:
            errs.append(((), "low is greater than high"))
        if kinds["high"] == "ill":
            errs.append((("high",), "expected type integer, found null"))
        if "label" not in ill and "label" in d and len(d["label"]) > 3:
            errs.append((("label",), "label too long"))
        if kinds["label"] == "ill":
            errs.append((("label",), "expected type string, found integer"))
        if kinds["low"] == "ill":
            errs.append((("low",), "expected type integer, found string"))
        return sorted(errs, key=repr)

    method = apischema.deserialization_method(mod.Span)
    for (k1, d1), (k2, d2) in itertools.product(data, data):
        dc.run_impl(method, dict(d1))
        kind, out = dc.run_impl(method, dict(d2))
        got = sorted(dc.impl_errors(out), key=repr) if kind == "err" else []
        exp = expected(k2, d2)
        st.case("validator_world", tuple(k2.values()), tuple(k1.values()))
        if got != exp or kind == "exc":
            st.violation(
                {
                    "label": "validators:Span",
                    "datum": repr(d2),
                    "options": ["after " + repr(d1)],
                    "signature": {"kind": "validator_errors", "lost": len(got) < len(exp), "states": [k2["low"], k2["high"], k2["label"]]},
                    "what": f"Span <- {d2!r} (after {d1!r} on the same method): errors {got if kind != 'exc' else repr(out)}, expected {exp}"[:500],
                }
            )
            return
    import sys

    sys.modules.pop(mod.__name__, None)


def run_long_arrays(st):
    """children in key order: indices are numbers (10 comes after 9), whatever the number of elements; arrays of 12 elements
    with every pair of ill-typed positions, under list / set / variadic tuple / fixed tuple / list of objects"""
    import itertools
    from typing import Dict, List, Set, Tuple

    n = 12
    types = {
        "List[int]": (List[int], lambda bad: [("x" if i in bad else i) for i in range(n)], lambda i: (i,)),
        "Tuple[int, ...]": (Tuple[int, ...], lambda bad: [("x" if i in bad else i) for i in range(n)], lambda i: (i,)),
        "Tuple[int x12]": (Tuple[tuple([int] * n)], lambda bad: [("x" if i in bad else i) for i in range(n)], lambda i: (i,)),
        "Dict[str, List[int]]": (Dict[str, List[int]], lambda bad: {"k": [("x" if i in bad else i) for i in range(n)]}, lambda i: ("k", i)),
    }
    for name, (tp, mk, loc) in types.items():
        method = apischema.deserialization_method(tp)
        for i, j in itertools.combinations(range(n), 2):
            kind, out = dc.run_impl(method, mk({i, j}))
            st.case("long_arrays", name, i, j)
            got = [l for l, _ in dc.impl_errors(out)] if kind == "err" else kind
            if got != [loc(i), loc(j)]:
                st.violation({"label": "long_arrays:" + name, "datum": repr(mk({i, j})), "signature": {"kind": "order", "shape": "long_arrays", "type": name}, "what": f"{name}: ill-typed elements at {i} and {j} reported as {got}, expected {[loc(i), loc(j)]} (children in key order)"[:400]})
                break


def work(tier, widx, nworkers, st, extra):
    mode = (extra or {}).get("mode", "main")
    if mode == "main" and widx == (3 % nworkers) and os.environ.get("VERIF_ONLY") in (None, "", "long_arrays"):
        try:
            run_long_arrays(st)
        except Exception:
            import traceback

            st.violation({"signature": {"kind": "harness_error"}, "harness_error": True, "what": "long arrays", "traceback": traceback.format_exc()[-2000:]})
    if mode == "main" and widx == (2 % nworkers) and os.environ.get("VERIF_ONLY") in (None, "", "validators"):
        try:
            run_validator_world(st)
        except Exception:
            import traceback

            st.violation({"signature": {"kind": "harness_error"}, "harness_error": True, "what": "validator world", "traceback": traceback.format_exc()[-2000:]})
    if mode == "main" and widx == (1 % nworkers) and os.environ.get("VERIF_ONLY") in (None, "", "sameclass"):
        for i, (label, spec) in enumerate(same_class_unions()):
            apischema.cache.reset()  # Union[A, B] == Union[B, A] for typing: cache conflation (known finding of C09)
            run_type(i + 1, label, spec, tier, st)
    if mode == "main" and widx == 0 and os.environ.get("VERIF_ONLY") in (None, "", "disc"):
        try:
            run_discriminated(st)
        except Exception:
            import traceback

            st.violation({"signature": {"kind": "harness_error"}, "harness_error": True, "what": "discriminated world", "traceback": traceback.format_exc()[-2000:]})
    if mode == "main":
        for i, label, spec in dc.my_types(tier, widx, nworkers):
            run_type(i, label, spec, tier, st)
    elif mode == "custom":
        set_catalogue(CUSTOM)
        try:
            for i, label, spec in dc.my_types(tier, widx, nworkers):
                if dc.level_of(label) <= 1 or tier == "thorough":
                    run_type(i, label, spec, tier, st, catalogue=CUSTOM)
        finally:
            dc.world.restore_settings()


def digest_main(tier):
    """run in a separate interpreter: print a digest of every error list of the level<=1 space"""
    dg = Digest()
    st = infra.Stats()
    for i, (label, spec) in enumerate(gen_types(tier)):
        if dc.level_of(label) <= 1:
            run_type(i, label, spec, tier, st, digest=dg)
    print(json.dumps({"digest": dg.h.hexdigest(), "n": dg.n, "violations": len(st.violations)}))


def main(tier: str, t0: float) -> int:
    st = infra.run_pool("vf.checks.c02", tier, extra={"mode": "main"})
    st2 = infra.run_pool("vf.checks.c02", tier, extra={"mode": "custom"})
    st.merge(st2)
    # determinism across hash seeds: two fresh interpreters
    outs = []
    procs = []
    for hs in ("1", "4242"):
        env = dict(os.environ, PYTHONHASHSEED=hs)
        procs.append(
            subprocess.Popen(
                [sys.executable, "-c", f"from vf import world; from vf.checks import c02; c02.digest_main({tier!r})"],
                env=env,
                cwd=infra.VERIF_DIR,
                stdout=subprocess.PIPE,
                stderr=subprocess.PIPE,
                text=True,
            )
        )
    for p in procs:
        o, e = p.communicate(timeout=1500)
        try:
            outs.append(json.loads(o.strip().splitlines()[-1]))
        except Exception:
            st.violation({"signature": {"kind": "harness_error"}, "harness_error": True, "what": "digest subprocess failed", "traceback": (o + e)[-2000:]})
    if len(outs) == 2:
        st.count("hashseed_digest_cases", outs[0]["n"])
        if outs[0]["digest"] != outs[1]["digest"] or outs[0]["n"] != outs[1]["n"]:
            st.violation(
                {
                    "signature": {"kind": "hashseed_nondeterminism"},
                    "what": f"error lists differ between PYTHONHASHSEED=1 and 4242: {outs}",
                    "label": "-",
                }
            )
    return infra.finish(
        PROP,
        tier,
        st,
        t0,
        rule=RULE,
        coverage_extra={"exhaustive": True, "bounds": {"nesting": 2, "deviations": 3 if tier == "thorough" else 2}},
        assumptions=[
            "messages are those of the settings.errors catalogue and 'expected type X, found Y'; where the docs fix no text (literal vs array/object datum) any message at the location is accepted",
            "an item of a mapping whose key and value are both invalid reports both at the item's location, key messages first",
            "the history pass carries data by strict subclasses of dict and list only; subclasses of scalars are C03's business",
        ],
    )


def replay(path: str) -> int:
    v = json.load(open(path))
    label = v["label"]
    if label.startswith("validators:"):
        st = infra.Stats()
        run_validator_world(st)
        for x in st.violations[:3]:
            print("VIOLATION property=C02 replay=" + path)
            print(" ", x["what"])
        return 1 if st.violations else 0
    if label.startswith("disc:"):
        st = infra.Stats()
        run_discriminated(st)
        hits = [x for x in st.violations if x.get("signature") == v.get("signature")]
        for x in hits[:3]:
            print("VIOLATION property=C02 replay=" + path)
            print(" ", x["what"])
        return 1 if hits else 0
    for lab, spec in itertools.chain(same_class_unions(), gen_types("thorough")):
        if lab == label:
            break
    else:
        print("label not found")
        return 2
    st = infra.Stats()
    case = dc.Case(label, spec)
    opts = v.get("options", ["False", "False", "id"])
    d = eval(v["datum"], {"nan": float("nan"), "inf": float("inf")})
    if opts[0] == "custom_errors":
        set_catalogue(CUSTOM)
        ctx, m = case.ctx(errors=dict(CUSTOM)), case.method()
    else:
        ap, fb, al = opts[0] == "True", opts[1] == "True", opts[2]
        ctx, m = case.ctx(ap, fb, al), case.method(ap, fb, al)
    check_one(case, ctx, m, d, 0, st, tuple(opts))
    for x in st.violations:
        print("VIOLATION property=C02 replay=" + path)
        print(" ", x["what"])
    return 1 if st.violations else 0
