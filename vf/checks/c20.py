"""C20 — concurrent first use from several threads is safe.  Engine E3 (vf/e3.py)."""
from __future__ import annotations

import json
import os
import sys
import time
from typing import Any, Callable, Dict, List, Tuple

from .. import e3, infra
from .. import world  # noqa
from ..realize import exec_source, PRELUDE, clear_typing_caches

import apischema
from apischema import deserialize, serialize
from apischema.json_schema import JsonSchemaVersion, deserialization_schema, serialization_schema

PROP = "C20"
RULE = (
    "every schedule of the harness threads with at most `bound` preemptions, scheduling points at every executed line "
    "(thorough: every bytecode of the recursion core) of apischema's shared-state modules; each execution runs on fresh "
    "classes and reset caches (first use); oracle: every thread's result and a fixed list of follow-up calls equal the "
    "sequential baseline. states = distinct (thread results, follow-up) outcomes + scheduling points visited, "
    "transitions = scheduling decisions taken, traces_validated_against_impl = schedules executed on the real code."
)

# --------------------------------------------------------------------------------- harnesses
H_SRC: Dict[str, str] = {}

# generated classes hash by name, so that set / dict iteration order over types does not depend
# on object addresses: the same schedule gives the same execution in every process (for a fixed
# PYTHONHASHSEED, which vf.run pins from VERIF_SEED)
DET = '''
class DetMeta(type):
    def __hash__(cls):
        return hash(cls.__qualname__)
'''

H_SRC["H1_deser_selfrec"] = '''
@dataclass
class Node(metaclass=DetMeta):
    v: int
    nxt: Optional["Node"] = None
DATA = {"v": 1, "nxt": {"v": 2}}
def body0(): return repr(apischema.deserialize(Node, DATA))
def body1(): return repr(apischema.deserialize(Node, DATA))
BODIES = [body0, body1]
def followup():
    return [repr(apischema.deserialize(Node, DATA)), repr(apischema.serialize(Node, Node(1, Node(2)))),
            repr(apischema.deserialize(List[Node], [DATA]))]
'''

H_SRC["H2_ser_selfrec"] = '''
@dataclass
class Node(metaclass=DetMeta):
    v: int
    kids: List["Node"] = field(default_factory=list)
VAL = Node(1, [Node(2), Node(3, [Node(4)])])
def body0(): return repr(apischema.serialize(Node, VAL))
def body1(): return repr(apischema.serialize(Node, VAL))
BODIES = [body0, body1]
def followup():
    return [repr(apischema.serialize(Node, VAL)), repr(apischema.deserialize(Node, {"v": 1, "kids": [{"v": 2}]})),
            repr(apischema.serialize(Optional[Node], VAL))]
'''

H_SRC["H3_shared_member"] = '''
@dataclass
class Tree(metaclass=DetMeta):
    v: int
    kids: List["Tree"] = field(default_factory=list)
@dataclass
class A(metaclass=DetMeta):
    t: Tree
@dataclass
class B(metaclass=DetMeta):
    ts: List[Tree]
def body0(): return repr(apischema.deserialize(A, {"t": {"v": 1, "kids": [{"v": 2}]}}))
def body1(): return repr(apischema.deserialize(B, {"ts": [{"v": 1, "kids": [{"v": 2}]}]}))
BODIES = [body0, body1]
def followup():
    return [body0(), body1(), repr(apischema.deserialize(Tree, {"v": 0})), repr(apischema.serialize(A, A(Tree(1, [Tree(2)]))))]
'''

H_SRC["H4_mutual"] = '''
@dataclass
class P(metaclass=DetMeta):
    q: Optional["Q"] = None
    n: int = 0
@dataclass
class Q(metaclass=DetMeta):
    p: Optional[P] = None
    m: int = 0
def body0(): return repr(apischema.deserialize(P, {"q": {"p": {"n": 1}}}))
def body1(): return repr(apischema.deserialize(Q, {"p": {"q": {"m": 1}}}))
BODIES = [body0, body1]
def followup():
    return [body0(), body1(), repr(apischema.serialize(P, P(Q(P(None, 2))))), repr(apischema.serialize(Q, Q(P(Q(None, 3)))))]
'''

H_SRC["H5_generic_rec"] = '''
TV = TypeVar("TV")
@dataclass
class GTree(Generic[TV], metaclass=DetMeta):
    v: TV
    kids: List["GTree[TV]"] = field(default_factory=list)
def body0(): return repr(apischema.deserialize(GTree[int], {"v": 1, "kids": [{"v": 2}]}))
def body1(): return repr(apischema.deserialize(GTree[int], {"v": 1, "kids": [{"v": 2}]}))
BODIES = [body0, body1]
def followup():
    return [body0(), repr(apischema.serialize(GTree[int], GTree(1, [GTree(2)])))]
'''

H_SRC["H6_schema_version"] = '''
from apischema.json_schema import deserialization_schema, serialization_schema, JsonSchemaVersion
@dataclass
class Leaf(metaclass=DetMeta):
    x: Optional[int] = None
@dataclass
class Doc(metaclass=DetMeta):
    a: Leaf
    b: List[Leaf] = field(default_factory=list)
def body0(): return repr(deserialization_schema(Doc, version=JsonSchemaVersion.DRAFT_7))
def body1(): return repr(serialization_schema(Doc, version=JsonSchemaVersion.OPEN_API_3_0))
BODIES = [body0, body1]
def followup():
    return [body0(), body1(), repr(deserialization_schema(Doc))]
'''

H_SRC["H7_plain_control"] = '''
@dataclass
class Plain(metaclass=DetMeta):
    a: int
    b: str = "x"
    c: List[int] = field(default_factory=list)
def body0(): return repr(apischema.deserialize(Plain, {"a": 1, "c": [1]}))
def body1(): return repr(apischema.serialize(Plain, Plain(1, "y", [2])))
BODIES = [body0, body1]
def followup():
    return [body0(), body1()]
'''

H_SRC["H8_three_threads"] = H_SRC["H1_deser_selfrec"].replace(
    "BODIES = [body0, body1]", "def body2(): return repr(apischema.serialize(Node, Node(1, Node(2))))\nBODIES = [body0, body1, body2]"
)

H_SRC["H9_validators_conv"] = '''
@dataclass
class V(metaclass=DetMeta):
    a: int = 0
    b: int = 0
    @validator
    def chk(self):
        if self.a > self.b:
            raise ValidationError("a > b")
class K:
    def __init__(self, x): self.x = x
    def __repr__(self): return f"K({self.x})"
@deserializer
def k_from_int(x: int) -> K: return K(x)
@serializer
def k_to_int(k: K) -> int: return k.x
@dataclass
class W(metaclass=DetMeta):
    k: K
    v: V = field(default_factory=V)
def body0():
    try: return repr(apischema.deserialize(W, {"k": 1, "v": {"a": 2, "b": 1}}))
    except ValidationError as e: return repr(e.errors)
def body1(): return repr(apischema.deserialize(W, {"k": 2, "v": {"a": 1, "b": 2}}))
BODIES = [body0, body1]
def followup():
    return [body0(), body1(), repr(apischema.serialize(W, W(K(3))))]
'''

H_SRC["H10_schema_same_direction"] = '''
from apischema.json_schema import deserialization_schema, serialization_schema, JsonSchemaVersion
class Raw:
    def __init__(self, x): self.x = x
@dataclass
class Point(metaclass=DetMeta):
    x: int = 0
@deserializer
def raw_from_point(p: Point) -> Raw: return Raw(p.x)
@serializer
def raw_to_point(r: Raw) -> Point: return Point(r.x)
@dataclass
class Rec(metaclass=DetMeta):
    r: Raw
    p: Point = field(default_factory=Point)
    nxt: Optional["Rec"] = None
def body0(): return repr(deserialization_schema(Rec))
def body1(): return repr(deserialization_schema(List[Rec], all_refs=True))
BODIES = [body0, body1]
def followup():
    return [body0(), body1(), repr(serialization_schema(Rec))]
'''

H_SRC["H11_ser_schema_same_direction"] = H_SRC["H10_schema_same_direction"].replace(
    "def body0(): return repr(deserialization_schema(Rec))", "def body0(): return repr(serialization_schema(Rec))"
).replace("def body1(): return repr(deserialization_schema(List[Rec], all_refs=True))", "def body1(): return repr(serialization_schema(List[Rec], all_refs=True))")

# a union dispatched by the class of the data, fed for the first time, from both threads, with data carried by subclasses
# of the JSON classes (the dispatch table of the shared compiled method must stay read-only at run time)
H_SRC["H12_union_by_type_subclass_data"] = '''
import collections
class D1(dict): pass
class D2(dict): pass
class L1(list): pass
U = Union[int, str, List[int], Dict[str, int]]
@dataclass
class Holder(metaclass=DetMeta):
    u: Union[int, str, List[int], Dict[str, int]] = 0
    us: List[Union[int, str, List[int], Dict[str, int]]] = field(default_factory=list)
def run(d):
    try: return repr(apischema.deserialize(Holder, d))
    except ValidationError as e: return repr(e.errors)
def body0(): return run({"u": D1(a=1), "us": [1, L1([2]), D2(b=2)]})
def body1(): return run({"u": D2(b=2), "us": [collections.OrderedDict(c=3), "s", D1(a="bad")]})
BODIES = [body0, body1]
def followup():
    return [body0(), body1(), run({"u": 1.5}), run({"u": collections.OrderedDict(c=None)}), repr(apischema.deserialize(U, D1(z=0)))]
'''

# a validator inherited from a base class, reading its fields through a method the subclass overrides: its dependencies for the
# subclass are computed at the first deserialization of the subclass, from both threads at once
H_SRC["H13_inherited_validator"] = '''
@dataclass
class VBase(metaclass=DetMeta):
    lo: int = 0
    hi: int = 10
    def span(self): return self.hi - self.lo
    @validator
    def chk(self):
        if self.span() < 0:
            raise ValidationError("lo > hi")
@dataclass
class VChild(VBase):
    off: int = 0
    def span(self): return self.hi - self.lo - self.off
def run(d):
    try: return repr(apischema.deserialize(VChild, d))
    except ValidationError as e: return repr(e.errors)
def body0(): return run({"lo": 5, "hi": 1})
def body1(): return run({"lo": 0, "hi": 3, "off": 5})
BODIES = [body0, body1]
def followup():
    return [body0(), body1(), run({"lo": 1, "hi": 2}), run({"off": "x", "lo": 3, "hi": 1}), repr(apischema.deserialize(VBase, {"lo": 0, "hi": 1}))]
'''

# lazy conversions (the ones registered by @discriminator for its subclasses, and an explicit deserializer(lazy=...)) resolved for
# the first time from both threads
H_SRC["H14_lazy_conversions"] = '''
from apischema.conversions import Conversion
@discriminator("type")
@dataclass
class Shape(metaclass=DetMeta):
    pass
@dataclass
class Circle(Shape):
    r: int = 0
@dataclass
class Square(Shape):
    s: int = 0
class LK:
    def __init__(self, x): self.x = x
    def __repr__(self): return f"LK({self.x})"
def lk_from_int(x: int) -> LK: return LK(x)
def lk_to_int(k: LK) -> int: return k.x
deserializer(lazy=lambda: Conversion(lk_from_int, source=int, target=LK), target=LK)
serializer(lazy=lambda: Conversion(lk_to_int, source=LK, target=int), source=LK)
@dataclass
class HoldsLK(metaclass=DetMeta):
    k: LK
    shape: Optional[Shape] = None
def run(f):
    try: return repr(f())
    except ValidationError as e: return repr(e.errors)
def body0(): return run(lambda: apischema.deserialize(HoldsLK, {"k": 1, "shape": {"type": "Circle", "r": 2}}))
def body1(): return run(lambda: (apischema.deserialize(Shape, {"type": "Square", "s": 3}), apischema.deserialize(LK, 4), apischema.serialize(HoldsLK, HoldsLK(LK(5), Circle(6)))))
BODIES = [body0, body1]
def followup():
    return [body0(), body1(), run(lambda: apischema.serialize(Shape, Square(7))), run(lambda: apischema.deserialize(List[LK], [8, "x"]))]
'''

# untyped serialize(obj) / Any positions: one shared method serves every class, from both threads, on first use of each class
H_SRC["H15_untyped_serialize"] = '''
@dataclass
class UA(metaclass=DetMeta):
    a: int = 1
    inner: Any = None
@dataclass
class UB(metaclass=DetMeta):
    b: str = "x"
    items: List[Any] = field(default_factory=list)
def body0(): return repr(apischema.serialize(UA(1, UB("y", [UA(2), 3]))))
def body1(): return repr(apischema.serialize(UB("z", [UA(4, UB()), UB("w")])))
BODIES = [body0, body1]
def followup():
    return [body0(), body1(), repr(apischema.serialize(Any, [UA(), UB()])), repr(apischema.serialize(Dict[str, Any], {"k": UB("q", [UA(5)])}))]
'''

# one thread uses a type for the first time (unions: every Optional field asks the registry of discriminators) while the other
# defines fresh classes (a module imported lazily by a request handler) and uses them: registries are read while they grow
H_SRC["H16_definition_during_first_use"] = '''
@discriminator("kind")
@dataclass
class Pet(metaclass=DetMeta):
    name: str = ""
@dataclass
class Cat(Pet):
    lives: int = 9
@dataclass
class Dog(Pet):
    tricks: int = 0
@dataclass
class Owner(metaclass=DetMeta):
    name: str = ""
    pet: Optional[Pet] = None
    age: Optional[int] = None
    other: Union[int, str, None] = None
def body0():
    return repr(apischema.deserialize(Owner, {"name": "o", "pet": {"kind": "Cat", "lives": 3}, "age": 1, "other": "x"}))
def body1():
    @discriminator("sort")
    @dataclass
    class Tool(metaclass=DetMeta):
        w: int = 0
    @dataclass
    class Saw(Tool):
        teeth: int = 1
    @dataclass
    class Axe(Tool):
        edge: int = 2
    return repr(apischema.deserialize(Tool, {"sort": "Saw", "teeth": 2})) + repr(apischema.serialize(Tool, Axe(1, 3)))
BODIES = [body0, body1]
def followup():
    return [body0(), body1(), repr(apischema.serialize(Owner, Owner("p", Dog("d", 2), None, 3))), repr(apischema.deserialize(Pet, {"kind": "Dog"}))]
'''

QUICK = ["H1_deser_selfrec", "H2_ser_selfrec", "H3_shared_member", "H4_mutual", "H7_plain_control", "H10_schema_same_direction", "H13_inherited_validator", "H14_lazy_conversions"]
ALL = list(H_SRC)


def shared_state_codes(instr: bool, wide=True):
    """code objects carrying scheduling points.  core: the modules owning shared mutable state
    (recursion analysis, caches, lazy conversions, lazily compiled recursive methods, validator
    dependency cache); wide: plus the visitors / factories that read and fill them."""
    import apischema.cache as cch
    import apischema.conversions.conversions as convs
    import apischema.conversions.visitor as cvis
    import apischema.deserialization as des
    import apischema.deserialization.methods as dm
    import apischema.recursion as rec
    import apischema.serialization as ser
    import apischema.serialization.methods as sm
    import apischema.validation.dependencies as vdep
    import apischema.json_schema.schema as jss
    import apischema.json_schema.refs as jsr
    import apischema.json_schema.conversions_resolver as jcr
    import apischema.utils as ut

    line = []
    seen = set()
    if wide == "all":
        # every function of every apischema module: no assumption on where shared state lives
        for name, m in sorted(sys.modules.items()):
            if m is not None and (name == "apischema" or name.startswith("apischema.")) and not name.startswith("apischema.graphql"):
                line += e3.code_objects(m, seen)
        return line, []
    if wide == "tiny":
        # the recursion analysis, the caches and the lazily compiled recursive methods only
        for m in (rec, cch):
            line += e3.code_objects(m, seen)
        for f in (dm.RecMethod, sm.RecMethod, convs.LazyConversion):
            line += e3.code_objects(f, seen)
        return line, []
    for m in (rec, cch, convs, vdep):
        line += e3.code_objects(m, seen)
    core = [
        dm.RecMethod,
        sm.RecMethod,
        des.deserialization_method_factory,
        des.DeserializationMethodFactory,
        ser.serialization_method_factory,
    ]
    extra = [
        des.deserialization_method,
        ser.serialization_method,
        des.DeserializationMethodVisitor._recursive_result,
        des.DeserializationMethodVisitor.visit_not_recursive,
        ser.SerializationMethodVisitor.visit_not_recursive,
        ser.SerializationMethodVisitor._factory.fget,
        cvis.ConversionsVisitor.visit,
        cvis.ConversionsVisitor._replace_conversion,
        ut.context_setter,
        jsr,
        jcr,
    ]
    for f in core + (extra if wide else []):
        line += e3.code_objects(f, seen)
    ins = []
    if instr:
        s2 = set()
        ins = e3.code_objects(rec.RecursiveChecker.visit, s2) + e3.code_objects(rec.is_recursive, s2) + e3.code_objects(rec.recursion_cache, s2)
        ins += e3.code_objects(dm.RecMethod, s2) + e3.code_objects(sm.RecMethod, s2)
    return line, ins


class World:
    def __init__(self, hname):
        self.hname = hname

    def make(self):
        apischema.cache.reset()
        try:
            import apischema.validation.dependencies as vdep

            vdep.cache.clear()
        except Exception:
            pass
        mod = exec_source(PRELUDE + DET + H_SRC[self.hname])
        sys.modules.pop(mod.__name__, None) if False else None
        bodies = list(mod.BODIES)

        def followup(mod=mod):
            try:
                return mod.followup()
            finally:
                sys.modules.pop(mod.__name__, None)
                import linecache

                linecache.cache.pop(mod.__file__, None)
                apischema.cache.reset()
                world.purge_module(mod.__name__)
                clear_typing_caches()

        return bodies, followup


def baseline(hname):
    w = World(hname)
    bodies, followup = w.make()
    res = []
    for b in bodies:
        try:
            res.append(("ok", b()))
        except BaseException as e:  # noqa
            res.append(("exc", type(e).__name__, e3.norm(str(e))[:80]))
    return res, ("ok", followup())


def loc_sig(v):
    sp = v.get("switch_points", [])
    return [f"{p['loc'][0]}:{p['loc'][1]}" for p in sp][:2]


_BASE: Dict[str, Any] = {}
_CFG: Dict[str, Any] = {}


def _init(instr, wide, bound_by_harness, max_schedules):
    sys.setrecursionlimit(400)
    line, ins = shared_state_codes(instr, wide)
    e3.install(line, ins)
    _CFG.update(instr=instr, wide=wide, bounds=bound_by_harness, max_schedules=max_schedules)


def _explorer(hname) -> e3.Explorer:
    if hname not in _BASE:
        b1, b2 = baseline(hname), baseline(hname)
        _BASE[hname] = (b1, b1 == b2)
    (base_res, base_fu), det = _BASE[hname]

    def check(results, fv, prefix, trace):
        bad = []
        for i, (r, b) in enumerate(zip(results, base_res)):
            if r != b:
                bad.append(f"thread{i}: {r} (sequential: {b})")
        if fv != base_fu:
            bad.append(f"follow-up: {fv} (sequential: {base_fu})")
        if bad:
            return {"harness": hname, "what": f"{hname}: " + "; ".join(bad)[:500], "results": repr(results)[:600], "followup": repr(fv)[:600]}
        return None

    ex = e3.Explorer(World(hname).make, _CFG["bounds"][hname], check, max_schedules=_CFG.get("max_schedules"))
    if not det:
        ex.harness_errors.append("sequential baseline not deterministic")
    return ex


def _collect(hname, ex: e3.Explorer, st: infra.Stats):
    st.count("schedules", ex.schedules)
    st.count("transitions", ex.transitions)
    st.count("schedules:" + hname, ex.schedules)
    st.note("max_points:" + hname, ex.max_points)
    for k in ex.outcomes:
        st.note("outcomes:" + hname, k[:300])
    if ex.capped:
        st.count("capped:" + hname)
    for he in ex.harness_errors[:3]:
        st.violation({"signature": {"kind": "harness_error"}, "harness_error": True, "what": f"{hname}: {he}", "traceback": he})
    for v in ex.violations:
        txt = v["what"]
        kind = (
            "RecursionError"
            if "RecursionError" in txt
            else "KeyError"
            if "KeyError" in txt
            else "AssertionError"
            if "AssertionError" in txt
            else "other_exception"
            if "'exc'" in txt
            else "different_result"
        )
        v["signature"] = {"kind": "schedule_violation", "harness": hname, "symptom": kind, "switch": loc_sig(v)}
        if _CFG.get("instr"):
            v["instr"] = True
        v["points"] = _CFG.get("wide")
        st.violation(v)


def _expand(hname):
    st = infra.Stats()
    try:
        ex = _explorer(hname)
        tasks = ex.expand_free()
        _collect(hname, ex, st)
        return hname, tasks, st
    except Exception:
        import traceback

        st.violation({"signature": {"kind": "harness_error"}, "harness_error": True, "what": "expand failed", "traceback": traceback.format_exc()[-2000:]})
        return hname, [], st


def _task(arg):
    hname, task = arg
    st = infra.Stats()
    try:
        ex = _explorer(hname)
        ex.run_task(task)
        _collect(hname, ex, st)
    except Exception:
        import traceback

        st.violation({"signature": {"kind": "harness_error"}, "harness_error": True, "what": "task failed", "traceback": traceback.format_exc()[-2000:]})
    return st


def run_config(plan, instr, wide, max_schedules=None, nworkers=None) -> infra.Stats:
    import multiprocessing as mp

    nworkers = nworkers or int(os.environ.get("VERIF_WORKERS", "0")) or min(16, os.cpu_count() or 4)
    total = infra.Stats()
    ctx = mp.get_context("fork")
    with ctx.Pool(nworkers, initializer=_init, initargs=(instr, wide, dict(plan), max_schedules)) as pool:
        tasks = []
        for hname, ts, st in pool.imap_unordered(_expand, [h for h, _ in plan]):
            total.merge(st)
            tasks.extend((hname, t) for t in ts)
            total.sample({"harness": hname, "bound": dict(plan)[hname], "instr": instr, "wide_points": wide, "tasks": len(ts)})
        # biggest prefixes last is irrelevant; interleave harnesses for balance
        for st in pool.imap_unordered(_task, tasks, chunksize=1):
            total.merge(st)
    return total


def main(tier: str, t0: float) -> int:
    if tier == "quick":
        st = run_config([(h, 1) for h in QUICK], False, True)
        everywhere_q = ["H1_deser_selfrec", "H2_ser_selfrec", "H9_validators_conv", "H12_union_by_type_subclass_data", "H13_inherited_validator", "H15_untyped_serialize", "H16_definition_during_first_use"]
        st.merge(run_config([(h, 1) for h in everywhere_q], False, "all"))
        plan_desc = {"wide line points, 1 preemption": QUICK, "line points in every apischema module, 1 preemption": everywhere_q}
    else:
        st = run_config([(h, 1) for h in ALL], False, True)
        two = ["H1_deser_selfrec", "H2_ser_selfrec", "H3_shared_member", "H4_mutual", "H5_generic_rec", "H9_validators_conv"]
        st.merge(run_config([(h, 2) for h in two], False, "tiny"))
        core4 = ["H1_deser_selfrec", "H2_ser_selfrec", "H3_shared_member", "H4_mutual"]
        st.merge(run_config([(h, 1) for h in core4], True, False))
        everywhere = ["H1_deser_selfrec", "H2_ser_selfrec", "H9_validators_conv", "H10_schema_same_direction", "H11_ser_schema_same_direction", "H12_union_by_type_subclass_data", "H13_inherited_validator", "H15_untyped_serialize", "H16_definition_during_first_use"]
        st.merge(run_config([(h, 1) for h in everywhere], False, "all"))
        plan_desc = {"wide line points, 1 preemption": ALL, "recursion/cache line points, 2 preemptions": two, "bytecode points on recursion core, 1 preemption": core4, "line points in every apischema module, 1 preemption": everywhere}
    st.counters["evaluations"] = st.counters.get("schedules", 0)
    outcomes = sum(len(v) for k, v in st.sets.items() if k.startswith("outcomes:"))
    return infra.finish(
        PROP,
        tier,
        st,
        t0,
        rule=RULE,
        mc_keys={
            "states": max(1, outcomes),
            "transitions": max(1, int(st.counters.get("transitions", 0))),
            "traces_validated_against_impl": int(st.counters.get("schedules", 0)),
            "distinct_nontrivial": max(2, outcomes),
            "exhaustive": not any(k.startswith("capped:") for k in st.counters),
            "bounds": {"preemptions": 1 if tier == "quick" else 2, "threads": "2 (3 in H8)"},
            "plan": plan_desc,
            "states_note": "states = distinct observable outcomes (thread results + follow-up observations) over all schedules; one per harness means no schedule changed any result",
        },
        assumptions=[
            "CPython 3.12 with the GIL: threads switch only between bytecodes; C-level dict / lru_cache operations are atomic",
            "scheduling points are line (thorough: also bytecode) boundaries inside apischema's shared-state modules; code outside them runs atomically with the preceding point",
            "generated classes hash by name (metaclass) and PYTHONHASHSEED is pinned from VERIF_SEED, so set/dict order over types is reproducible",
        ],
    )


def replay(path: str) -> int:
    v = json.load(open(path))
    hname = v["harness"]
    sys.setrecursionlimit(400)
    line, ins = shared_state_codes(bool(v.get("instr")), v.get("points", True))
    e3.install(line, ins)
    base_res, base_fu = baseline(hname)
    ok = True
    for _ in range(2):
        bodies, followup = World(hname).make()
        results, trace, aborted = e3.run_schedule(bodies, v["schedule"])
        fv = ("ok", followup()) if not aborted else None
        print("results:", results, "followup:", fv, "aborted:", aborted)
        if aborted or results != base_res or fv != base_fu:
            ok = False
    if not ok:
        print(f"VIOLATION property=C20 replay={path}")
    return 0 if ok else 1
