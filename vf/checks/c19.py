"""C19 — GraphQL schema mirrors the data model and executes like (de)serialize.
E1 over the GraphQL-compatible fragment of the grammar + source worlds (interfaces, unions of
objects, id types, argument signatures); oracles: graphql-core validation / execution, a type
prediction model over the TypeSpec, serialize / deserialize of the real code."""
from __future__ import annotations

import itertools
import json
import re
from typing import Any, Dict, List, Mapping, Optional, Tuple

from .. import infra
from ..data import enumerate_data
from ..grammar import gen_types, well_formed
from ..realize import PRELUDE, exec_source, realize
from ..refmodel.deser import UNDEF, UNSPEC, Ctx, Unspecified, VEnum, VObj, all_fields, conform, field_ext_name, flat_alts, resolve, strip_none
from ..refmodel.ser import SOpts, has_alt, image, img_equal, ser_fields
from ..tast import AnyT, Coll, Con, EnumT, Gen, Lit, MapT, NewT, Obj, Prim, Ref, T, Tup, TVar, Uni, short, walk
from . import deser_common as dc
from .c04 import build_value, values_of

import apischema
from apischema import ValidationError, deserialize, serialize
from apischema.utils import to_camel_case

import graphql
from apischema.graphql import graphql_schema

PROP = "C19"
RULE = (
    "GraphQL-compatible fragment of the grammar: object shapes (required / default / required metadata / alias / class "
    "aliaser / two fields / frozen / none_as_undefined / Undefined default / flattened / recursive / mutual / init=False / "
    "skip / with_fields_set) over atoms {int, float, str, bool, str- and int-valued Enum, NewType, constrained int / str / "
    "float} and inner constructors {Optional, List, Sequence, Set, FrozenSet, variadic Tuple, NewType of list, constrained "
    "list}. For each type: schema built as query result type and as mutation argument type; assert_valid_schema and "
    "print_schema; the predicted type expression (name, [..], !, Input suffix) of every output and input field; the "
    "full-selection query on every model-built value equals the reference image with enums by name and omitted fields as "
    "null; for every datum at <=1 deviation the resolver is invoked iff deserialize accepts and receives an equal value, "
    "otherwise a GraphQL error and no call. Source worlds: argument signatures (required / default / None / "
    "unserialisable / list default / Undefined / enum default), interfaces, unions of objects, id_types with encoding, "
    "error_handler. Composition of operations: every ordered pair (quick) / triple (thorough) of a menu of 16 operations "
    "sharing types on purpose (the same union twice, named and unnamed; a class flattened here and plain there; interface "
    "implementations; recursion only through resolvers; a conversion carried by a list field): the schema validates, each "
    "operation executes to its fixed expected data, and its type and every type reachable from it are those of the "
    "operation alone. distinct_nontrivial counts distinct (ctor-pair shape, view, value / datum index) tuples."
)

ATOMS = {"int", "float", "str", "bool", "enum_str", "enum_int", "newtype_int", "con_int", "con_str", "con_float"}
INNER = {"opt", "list", "seq", "set", "frozenset", "vartuple", "newtype_list", "con_list"}
SHAPES = {
    "req", "default", "default_first", "required_md", "aliased", "class_aliaser", "two_fields", "frozen_dc", "none_as_undef",
    "undefined_default", "flat_req", "flat_default", "rec_opt", "rec_list", "mutual", "init_false", "skip_variants", "fields_set",
    "dep_req", "fbod_field", "field_cons",
}


def in_fragment(label: str) -> bool:
    m = re.fullmatch(r"(\w+)\[(\w+)\]", label)
    if m:
        return m.group(1) in SHAPES and m.group(2) in ATOMS
    m = re.fullmatch(r"(\w+)\[(\w+)\[(\w+)\]\]", label)
    if m:
        outer, inner, a = m.groups()
        return outer in SHAPES and (inner in INNER or inner in SHAPES - {"flat_req", "flat_default"}) and a in ATOMS
    return False


SCALARS = {"int": "Int", "float": "Float", "str": "String", "bool": "Boolean"}


def gql_type(t: T, ctx: Ctx, inp: bool, nullable: bool = False) -> str:
    """predicted GraphQL type expression"""
    t0 = t
    t = resolve(t, ctx)
    if isinstance(t, Con):
        return gql_type(t.base, ctx, inp, nullable)
    if isinstance(t, Uni):
        alts = [a for a in flat_alts(t, ctx) if not (isinstance(a, Prim) and a.kind in ("none", "undefined"))]
        opt = len(alts) != len(flat_alts(t, ctx))
        if len(alts) == 1:
            return gql_type(alts[0], ctx, inp, nullable or opt)
        raise Unspecified("union")
    bang = "" if nullable else "!"
    if isinstance(t, Prim):
        return SCALARS[t.kind] + bang
    if isinstance(t, NewT):
        b = resolve(t.base, ctx)
        while isinstance(b, Con):
            b = resolve(b.base, ctx)
        if isinstance(b, Prim):
            return t.name + bang  # a NewType of a primitive is a named scalar
        return gql_type(t.base, ctx, inp, nullable)
    if isinstance(t, EnumT):
        return t.name + bang
    if isinstance(t, Coll):
        return "[" + gql_type(t.elt, ctx, inp) + "]" + bang
    if isinstance(t, Obj):
        return t.name + ("Input" if inp else "") + bang
    raise Unspecified(repr(t))


def default_is_valid_input(ft: T, f, ctx: Ctx) -> bool:
    """reference models only: is the serialized default accepted back by deserialization (same aliaser)"""
    try:
        dv = f.default_value
        if f.factory is not None and callable(dv):
            dv = dv()
        so = SOpts(aliaser=ctx.aliaser, env=ctx.env, tvars=ctx.tvars)
        img = image(ft, dv, so)
        r = conform(ft, json.loads(json.dumps(_plain(img))), ctx)
        return r is UNSPEC or r.ok
    except Exception:
        return True


def _plain(x):
    from ..refmodel.ser import SetImg

    if isinstance(x, SetImg):
        return [_plain(v) for v in x.items]
    if isinstance(x, list):
        return [_plain(v) for v in x]
    if isinstance(x, dict):
        return {k: _plain(v) for k, v in x.items()}
    return x


def expected_fields(ob: Obj, ctx: Ctx, inp: bool) -> Dict[str, str]:
    """field name (camelCase aliaser) -> type expression, flattened fields merged"""
    c2 = Ctx(**{**ctx.__dict__, "aliaser": "camel"})
    out: Dict[str, str] = {}
    fields = [f for f in all_fields(ob, ctx) if (f.init and f.skip not in ("all", "deser"))] if inp else ser_fields(ob, ctx)
    for f in fields:
        ft = strip_none(f.type) if (f.none_as_undefined and inp) else f.type
        if f.flatten:
            inner = resolve(ft, ctx)
            out.update(expected_fields(inner, ctx, inp))
            continue
        nullable = False
        if inp:
            # non-null unless Optional / Undefined or a None / Undefined default (a serialisable default keeps `!`)
            nullable = f.optional and (f.default_value is None or f.default_value is UNDEF)
            if f.optional and not nullable and not default_is_valid_input(ft, f, c2):
                # a default whose serialization is not an acceptable input (serialized-only members, conversions,
                # constraints) cannot be declared: same treatment as an unserialisable default
                nullable = True
        else:
            nullable = f.none_as_undefined or has_alt(f.type, "undefined", ctx)
        out[field_ext_name(ob, f, c2)] = gql_type(ft, ctx, inp, nullable)
    return out


def selection(tp, depth=0) -> str:
    tp = graphql.get_named_type(tp)
    if isinstance(tp, (graphql.GraphQLObjectType, graphql.GraphQLInterfaceType)):
        if depth > 3:
            return "{ __typename }"
        return "{ " + " ".join(f"{n} {selection(f.type, depth + 1)}" for n, f in tp.fields.items()) + " }"
    return ""


def prune(expected, got):
    """the selection is cut at depth 3 on recursive types: compare only what was selected"""
    if isinstance(got, dict) and set(got) == {"__typename"}:
        return None, None
    return expected, got


def compare_result(exp: Any, got: Any, path="") -> Optional[str]:
    """exp: model image (dict with omitted keys absent); got: GraphQL data (all selected keys, null when omitted)"""
    from ..refmodel.ser import SetImg

    if isinstance(got, dict) and set(got) == {"__typename"}:
        return None
    if isinstance(exp, dict):
        if not isinstance(got, dict):
            return f"{path}: expected object, got {got!r}"
        for k, v in got.items():
            if k in exp:
                r = compare_result(exp[k], v, f"{path}.{k}")
                if r:
                    return r
            elif v is not None:
                return f"{path}.{k}: omitted by serialize but GraphQL gives {v!r}"
        for k in exp:
            if k not in got:
                return f"{path}.{k}: missing in GraphQL result"
        return None
    if isinstance(exp, SetImg):
        if not isinstance(got, list) or len(got) != len(exp.items):
            return f"{path}: expected {exp!r}, got {got!r}"
        rest = list(got)
        for x in exp.items:
            for i, y in enumerate(rest):
                if compare_result(x, y, path) is None:
                    del rest[i]
                    break
            else:
                return f"{path}: element {x!r} missing"
        return None
    if isinstance(exp, list):
        if not isinstance(got, list) or len(got) != len(exp):
            return f"{path}: expected {exp!r}, got {got!r}"
        for i, (a, b) in enumerate(zip(exp, got)):
            r = compare_result(a, b, f"{path}[{i}]")
            if r:
                return r
        return None
    if isinstance(exp, float) or isinstance(got, float):
        return None if exp == got and not isinstance(got, bool) else f"{path}: expected {exp!r}, got {got!r}"
    return None if (type(exp) is type(got) and exp == got) else f"{path}: expected {exp!r}, got {got!r}"


def run_type(i, label, spec, tier, st):
    env = dc.build_env(spec)
    ctx0 = Ctx(env=env)
    if well_formed(spec, ctx0) or not in_fragment(label):
        return
    root = resolve(spec, ctx0)
    if not isinstance(root, Obj) or root.kind != "dataclass":
        return
    case = dc.Case(label, spec)
    try:
        rz = case.realize()
    except Exception as e:
        st.violation({"label": label, "signature": {"kind": "realize_error"}, "what": repr(e)[:300], "harness_error": True, "traceback": repr(e)})
        return
    st.count("types")
    if i % 53 == 0:
        st.sample({"type": short(spec), "label": label})
    mod = rz.module
    T_ = rz.tp
    calls: List[Any] = []
    values: List[Any] = []

    def q():
        return values[0]

    q.__annotations__ = {"return": T_}

    def m(arg):
        calls.append(arg)
        return True

    m.__annotations__ = {"arg": T_, "return": bool}
    base = {"label": label, "type": short(spec), "source": rz.source}
    try:
        schema = graphql_schema(query=[q], mutation=[m])
        graphql.assert_valid_schema(schema)
        printed = graphql.print_schema(schema)
    except Exception as e:
        st.violation(dict(base, signature={"kind": "schema_build", "exc": type(e).__name__, "msg": re.sub(r"[A-Z]\d+", "X", str(e))[:40]}, what=f"graphql_schema / assert_valid_schema / print_schema raised {e!r}"[:300]))
        case.drop()
        return
    # ---- type map prediction
    for inp in (False, True):
        for ob in [x for x in walk(spec) if isinstance(x, Obj)]:
            if any(f.flatten for f in ob.fields) and False:
                continue
            # flattened inner objects only exist as separate types on the output side when used elsewhere
            name = ob.name + ("Input" if inp else "")
            gt = schema.type_map.get(name)
            if gt is None:
                continue
            try:
                exp = expected_fields(ob, ctx0, inp)
            except Unspecified:
                st.count("unspecified_type_prediction")
                continue
            got = {n: str(f.type) for n, f in gt.fields.items()}
            st.case(dc.shape_of(label), "typemap", inp, name)
            if got != exp:
                diff = {k: (got.get(k), exp.get(k)) for k in set(got) | set(exp) if got.get(k) != exp.get(k)}
                kinds = sorted({"name" if (a is None or b is None) else ("nullability" if a.replace("!", "") == b.replace("!", "") else "type") for a, b in diff.values()})
                st.violation(dict(base, signature={"kind": "type_map", "input": inp, "what": kinds, "shape": dc.shape_of(label).split("[")[0]}, what=f"{name}: fields {diff} (got, expected)"[:400], printed=printed[:1500]))
    # ---- execution == serialize
    so = SOpts(exclude_none=False, exclude_defaults=False, exclude_unset=False, aliaser="camel", env=env)
    qsel = selection(schema.query_type.fields["q"].type)
    for vi, v in enumerate(values_of(spec, ctx0)[:6]):
        try:
            real = build_value(spec, v, mod, ctx0)
            exp = gql_image(spec, v, so)
        except Unspecified:
            st.count("unspecified")
            continue
        except Exception:
            st.count("value_not_buildable")
            continue
        values[:] = [real]
        r = graphql.graphql_sync(schema, "{ q " + qsel + " }")
        st.case(dc.shape_of(label), "query", vi)
        if r.errors:
            st.violation(dict(base, value=repr(real)[:200], signature={"kind": "query_error", "shape": dc.shape_of(label).split("[")[0], "msg": re.sub(r"[A-Z]\d+", "X", str(r.errors[0].message))[:50]}, what=f"query on {real!r} failed: {r.errors[0].message}"[:400], printed=printed[:1500]))
            continue
        c = compare_result(exp, r.data["q"])
        if c:
            st.violation(dict(base, value=repr(real)[:200], signature={"kind": "query_result", "shape": dc.shape_of(label)}, what=f"query gives {r.data['q']!r}, serialize image {exp!r}: {c}"[:500]))
    # ---- arguments == deserialize
    if any(isinstance(x, EnumT) for x in walk(spec)) or "fbod_field" in label:
        # GraphQL enum inputs are given by *name* (graphql-core maps them to values before apischema sees them);
        # fall_back_on_default cannot rescue what graphql-core's own coercion refuses
        case.drop()
        return
    ctxc = case.ctx(False, False, "camel")
    dm = apischema.deserialization_method(T_, aliaser=to_camel_case)
    for dev, d in enumerate_data(spec, ctxc, k=1, wide=False):
        if not isinstance(d, dict):
            continue
        if not json_safe(d):
            continue
        # graphql-core coerces variables first (a single value becomes a one-element list, ints become floats...):
        # the reference is deserialize on the coerced datum; when graphql-core itself refuses the value a GraphQL
        # error without call is expected
        try:
            coerced = graphql.utilities.coerce_input_value(d, schema.type_map[root.name + "Input"])
            kind, out = dc.run_impl(dm, coerced)
        except Exception:
            kind, out = "err", None
        del calls[:]
        r = graphql.graphql_sync(schema, "mutation($a: %sInput!) { m(arg: $a) }" % root.name, variable_values={"a": d})
        st.case(dc.shape_of(label), "mutation", repr(d)[:80])
        called = bool(calls)
        if kind == "ok":
            if not called or r.errors:
                st.violation(dict(base, datum=repr(d), signature={"kind": "valid_argument_refused", "shape": dc.shape_of(label)}, what=f"deserialize accepts {d!r} but the mutation fails: {r.errors[0].message if r.errors else 'resolver not called'}"[:400]))
            elif not _eq(calls[0], out):
                st.violation(dict(base, datum=repr(d), signature={"kind": "argument_value_differs", "shape": dc.shape_of(label)}, what=f"resolver received {calls[0]!r}, deserialize gives {out!r}"[:400]))
        else:
            if called:
                st.violation(dict(base, datum=repr(d), signature={"kind": "invalid_argument_reached_resolver", "shape": dc.shape_of(label)}, what=f"deserialize rejects {d!r} but the resolver was invoked with {calls[0]!r}"[:400]))
            elif not r.errors:
                st.violation(dict(base, datum=repr(d), signature={"kind": "invalid_argument_no_error", "shape": dc.shape_of(label)}, what=f"no GraphQL error for invalid argument {d!r}"[:300]))
    case.drop()
    dc.periodic_reset(i, 50)


def json_safe(d) -> bool:
    if isinstance(d, float):
        return d == d and d not in (float("inf"), float("-inf"))
    if isinstance(d, dict):
        return all(isinstance(k, str) for k in d) and all(json_safe(v) for v in d.values())
    if isinstance(d, list):
        return all(json_safe(v) for v in d)
    return True


def _eq(a, b) -> bool:
    try:
        return type(a) is type(b) and (a == b or repr(a) == repr(b))
    except Exception:
        return False


def gql_image(spec, v, so: SOpts):
    """reference image with enums by (upper-cased) member name"""
    from ..refmodel import ser as S

    orig = S._img

    def patched(t, val, o, ctx):
        tt = resolve(t, ctx)
        if isinstance(tt, EnumT):
            from ..refmodel.deser import VAlts

            if isinstance(val, VAlts):
                val = val.first
            return val.member.upper()
        return orig(t, val, o, ctx)

    S._img = patched
    try:
        return image(spec, v, so)
    finally:
        S._img = orig


# --------------------------------------------------------------------------------- worlds
WORLD = '''
import uuid
import graphql
from typing import AsyncIterable
from apischema.graphql import graphql_schema, resolver, interface, Query, Mutation
from apischema.graphql import ID
CALLS = []
class Color(Enum):
    RED = "r"
    BLUE = "b"
@dataclass
class Pt:
    x: int = 0
def a_required(a: int) -> int: CALLS.append(("a_required", a)); return a
def a_default(a: int = 3) -> int: CALLS.append(("a_default", a)); return a
def a_none(a: Optional[int] = None) -> Optional[int]: CALLS.append(("a_none", a)); return a
@dataclass
class Wide:
    some_field: int = 0
def a_wide_default(a: Wide = Wide(3)) -> int: CALLS.append(("a_wide_default", a)); return a.some_field
def a_info_first(info: graphql.GraphQLResolveInfo, a: int = 3) -> int: CALLS.append(("a_info_first", a)); return a
def a_info_mid(a: int, info: graphql.GraphQLResolveInfo, b: int = 2) -> int: CALLS.append(("a_info_mid", a, b)); return a + b
@dataclass
class HoldsMap:
    by_key: Mapping[str, Wide] = field(default_factory=lambda: {"k_1": Wide(1)})
    anything: Any = field(default_factory=lambda: [Wide(2), {"w": Wide(3)}])
def map_of_objects() -> Mapping[str, Wide]: return {"k_1": Wide(1)}
def any_of_objects() -> Any: return [Wide(2), {"w": Wide(3)}]
def holds_map() -> HoldsMap: return HoldsMap()
def a_opt_default(a: Optional[int] = 5) -> Optional[int]: CALLS.append(("a_opt_default", a)); return a
def a_opt_list(a: Optional[List[int]] = [1]) -> int: CALLS.append(("a_opt_list", a)); return -1 if a is None else len(a)
_UNSER = object()
def a_unser(a: int = _UNSER) -> bool: CALLS.append(("a_unser", a)); return a is _UNSER
def a_obj_default(a: Pt = Pt(5)) -> int: CALLS.append(("a_obj_default", a)); return a.x
def a_list_default(a: List[int] = []) -> int: CALLS.append(("a_list_default", a)); return len(a)
def a_undefined(a: Union[int, UndefinedType] = Undefined) -> bool: CALLS.append(("a_undefined", a)); return a is Undefined
def a_enum_default(c: Color = Color.RED) -> Color: CALLS.append(("a_enum_default", c)); return c
class StrColor(str, Enum):
    RED = "r"
    BLUE = "b"
def a_str_enum(c: StrColor = StrColor.RED) -> StrColor: CALLS.append(("a_str_enum", c)); return c
from apischema.conversions import Conversion as _Conversion
def _int_of(s: str) -> int: return int(s)
def a_conv_default(x: Annotated[int, conversion(deserialization=_int_of)] = 3) -> int: CALLS.append(("a_conv_default", x)); return x
@dataclass
class ConvIn:
    x: int = field(default=3, metadata=conversion(deserialization=_int_of))
    y: Annotated[int, schema(min=5)] = 1   # a default which is not a valid input
def in_conv_default(arg: ConvIn) -> int: CALLS.append(("in_conv_default", arg)); return arg.x + arg.y
def a_opt_req(a: Optional[int], b: Optional[str]) -> str: CALLS.append(("a_opt_req", a, b)); return f"{a}/{b}"
def a_two(a: int, b: str = "x") -> str: CALLS.append(("a_two", a, b)); return b * a
def a_constrained(a: Annotated[int, schema(min=0, max=3)]) -> int: CALLS.append(("a_constrained", a)); return a

@dataclass
class WithListDefault:
    items: List[int] = field(default_factory=list)
    n: Optional[int] = None
@dataclass
class Ring:
    radius: float = 1          # an int is a valid float (and deserialize accepts it)
    scale: Optional[float] = 2
    ratio: float = 0.5
def in_numeric_defaults(arg: Ring) -> float: CALLS.append(("in_numeric_defaults", arg)); return arg.radius * (arg.scale or 0) + arg.ratio
def in_list_default(arg: WithListDefault) -> int: CALLS.append(("in_list_default", arg)); return len(arg.items)

@interface
@dataclass
class Shape:
    name: str
@dataclass
class Circle(Shape):
    r: float = 1.0
@dataclass
class Square(Shape):
    side: float = 2.0
def shapes() -> List[Shape]: return [Circle("c", 1.5), Square("s", 3.0)]
def any_shape(i: int) -> Union[Circle, Square]: return [Circle("c", 1.5), Square("s", 3.0)][i]

# interface hierarchies: interface -> plain class -> class, and interface extending an interface
@interface
@dataclass
class INode:
    ident: int
@dataclass
class Stamped(INode):
    ts: int = 0
@dataclass
class Article(Stamped):
    title: str = ""
@interface
@dataclass
class IEntity:
    ident: int
@interface
@dataclass
class INamed(IEntity):
    label: str = ""
@dataclass
class Account(INamed):
    email: str = ""
def inodes() -> List[INode]: return [Article(1, 2, "t"), Stamped(3, 4)]
def ientities() -> List[IEntity]: return [Account(1, "n", "e")]
def inamed() -> List[INamed]: return [Account(2, "m", "f")]
def one_article() -> Article: return Article(5, 6, "u")

@dataclass
class WithId:
    id: uuid.UUID
    n: int = 0
THE_ID = uuid.UUID("12345678-1234-5678-1234-567812345678")
def with_id() -> WithId: return WithId(THE_ID, 1)
def by_id(id: uuid.UUID) -> str: CALLS.append(("by_id", id)); return str(id)

@dataclass
class Owner:
    full_name: str = "Ann"
@dataclass
class Tag:
    label: str = "t"
@dataclass
class Keeper:
    nick_name: str = "k"
@dataclass
class Keeper2:
    nick_name: str = "k2"
@dataclass
class Details:
    serial: int = 0
    owner_obj: Owner = field(default_factory=Owner)
    @resolver
    def keeper(self) -> Keeper:
        return Keeper("kk")
    @resolver
    def keeper2(self) -> Optional[Keeper2]:
        return Keeper2("k22")
    @resolver
    def owner(self) -> Owner:
        return Owner("Bob")
    @resolver
    def tags(self, n: int = 1) -> List[Tag]:
        return [Tag(f"t{i}") for i in range(n)]
    @resolver
    def maybe(self) -> Optional[Owner]:
        return None
@dataclass
class Device:
    name: str = "d"
    details: Details = field(default_factory=Details, metadata=flatten)
def device() -> Device: return Device("dev", Details(3))
def owner_first() -> Owner: return Owner("Zed")

async def sub_one() -> AsyncIterable[int]:
    yield 1
async def sub_two() -> AsyncIterable[str]:
    yield "a"
def failing() -> int: raise RuntimeError("boom")
def handled_q() -> Optional[int]: raise RuntimeError("boom")
'''


def world_checks(st: infra.Stats):
    m = exec_source(PRELUDE + WORLD)
    from apischema.graphql import Query

    def viol(kind, what, **sig):
        st.violation({"label": "world", "signature": dict({"kind": kind}, **sig), "what": what[:500]})

    ops = ["a_required", "a_default", "a_none", "a_opt_default", "a_opt_list", "a_wide_default", "a_info_first", "a_info_mid", "a_unser", "a_obj_default", "a_list_default", "a_undefined", "a_enum_default", "a_str_enum", "a_conv_default", "in_conv_default", "a_two", "a_constrained", "in_list_default", "in_numeric_defaults", "by_id", "a_opt_req"]
    built = {}
    for name in ops:
        st.case("world", "signature", name)
        try:
            s = graphql_schema(query=[getattr(m, name)], id_types={m.uuid.UUID})
            graphql.assert_valid_schema(s)
            graphql.print_schema(s)
            built[name] = s
        except Exception as e:
            viol("world_schema_build", f"{name}: {e!r}", op=name, exc=type(e).__name__)
    expect_args = {
        "a_required": {"a": "Int!"},
        "a_default": {"a": "Int!"},
        "a_none": {"a": "Int"},
        "a_opt_default": {"a": "Int"},
        "a_wide_default": {"a": "WideInput!"},
        "a_info_first": {"a": "Int!"},
        "a_info_mid": {"a": "Int!", "b": "Int!"},
        "a_opt_list": {"a": "[Int!]"},
        "a_unser": {"a": "Int"},
        "a_obj_default": {"a": "PtInput!"},
        "a_list_default": {"a": "[Int!]!"},
        "a_undefined": {"a": "Int"},
        "a_enum_default": {"c": "Color!"},
        "a_str_enum": {"c": "StrColor!"},
        # the default is a value of the parameter, the argument is the source of its conversion: no default can be
        # declared, the Python one is used when the argument is omitted
        "a_conv_default": {"x": "String"},
        "in_conv_default": {"arg": "ConvInInput!"},
        "a_two": {"a": "Int!", "b": "String!"},
        "a_constrained": {"a": "Int!"},
        "in_list_default": {"arg": "WithListDefaultInput!"},
        "in_numeric_defaults": {"arg": "RingInput!"},
        "by_id": {"id": "ID!"},
        # Optional parameters without default: nullable arguments, None when omitted
        "a_opt_req": {"a": "Int", "b": "String"},
    }
    for name, s in built.items():
        qn = to_camel_case(name)
        got = {n: str(a.type) for n, a in s.query_type.fields[qn].args.items()}
        if got != expect_args[name]:
            viol("world_argument_types", f"{name}: arguments {got} expected {expect_args[name]}", op=name)
    # input object fields with numeric defaults written as ints
    if "in_numeric_defaults" in built:
        fields = built["in_numeric_defaults"].type_map["RingInput"].fields
        got = {n: (str(f.type), f.default_value) for n, f in fields.items()}
        exp = {"radius": ("Float!", 1), "scale": ("Float", 2), "ratio": ("Float!", 0.5)}
        if got != exp:
            viol("world_input_defaults", f"RingInput fields {got} expected {exp}", op="in_numeric_defaults")
    # execution with / without arguments
    runs = [
        ("a_required", "{ aRequired(a: 2) }", {"aRequired": 2}, ("a_required", 2)),
        ("a_default", "{ aDefault }", {"aDefault": 3}, ("a_default", 3)),
        ("a_default", "{ aDefault(a: 4) }", {"aDefault": 4}, ("a_default", 4)),
        ("in_numeric_defaults", "{ inNumericDefaults(arg: {}) }", {"inNumericDefaults": 2.5}, ("in_numeric_defaults", m.Ring(1, 2, 0.5))),
        ("in_numeric_defaults", "{ inNumericDefaults(arg: {radius: 2, scale: null}) }", {"inNumericDefaults": 0.5}, ("in_numeric_defaults", m.Ring(2, None, 0.5))),
        ("a_none", "{ aNone }", {"aNone": None}, ("a_none", None)),
        ("a_none", "{ aNone(a: null) }", {"aNone": None}, ("a_none", None)),
        ("a_none", "{ aNone(a: 2) }", {"aNone": 2}, ("a_none", 2)),
        # an explicit null is a value (deserialize(Optional[int], None) == None), not an omission
        ("a_opt_default", "{ aOptDefault }", {"aOptDefault": 5}, ("a_opt_default", 5)),
        ("a_opt_default", "{ aOptDefault(a: null) }", {"aOptDefault": None}, ("a_opt_default", None)),
        ("a_opt_default", "{ aOptDefault(a: 2) }", {"aOptDefault": 2}, ("a_opt_default", 2)),
        # the default of an object-typed parameter goes through the aliaser like any input value
        ("a_wide_default", "{ aWideDefault }", {"aWideDefault": 3}, ("a_wide_default", m.Wide(3))),
        ("a_wide_default", "{ aWideDefault(a: {someField: 4}) }", {"aWideDefault": 4}, ("a_wide_default", m.Wide(4))),
        # parameters around the info parameter are arguments like the others
        ("a_info_first", "{ aInfoFirst }", {"aInfoFirst": 3}, ("a_info_first", 3)),
        ("a_info_first", "{ aInfoFirst(a: 4) }", {"aInfoFirst": 4}, ("a_info_first", 4)),
        ("a_info_mid", "{ aInfoMid(a: 1) }", {"aInfoMid": 3}, ("a_info_mid", 1, 2)),
        ("a_info_mid", "{ aInfoMid(a: 1, b: 5) }", {"aInfoMid": 6}, ("a_info_mid", 1, 5)),
        ("a_opt_list", "{ aOptList }", {"aOptList": 1}, ("a_opt_list", [1])),
        ("a_opt_list", "{ aOptList(a: null) }", {"aOptList": -1}, ("a_opt_list", None)),
        ("a_opt_list", "{ aOptList(a: [1, 2]) }", {"aOptList": 2}, ("a_opt_list", [1, 2])),
        ("a_unser", "{ aUnser }", {"aUnser": True}, ("a_unser", m._UNSER)),
        ("a_unser", "{ aUnser(a: 7) }", {"aUnser": False}, ("a_unser", 7)),
        ("a_obj_default", "{ aObjDefault }", {"aObjDefault": 5}, ("a_obj_default", m.Pt(5))),
        ("a_obj_default", "{ aObjDefault(a: {x: 7}) }", {"aObjDefault": 7}, ("a_obj_default", m.Pt(7))),
        ("a_list_default", "{ aListDefault }", {"aListDefault": 0}, ("a_list_default", [])),
        ("a_list_default", "{ aListDefault(a: [1, 2]) }", {"aListDefault": 2}, ("a_list_default", [1, 2])),
        ("a_undefined", "{ aUndefined }", {"aUndefined": True}, ("a_undefined", apischema.Undefined)),
        ("a_enum_default", "{ aEnumDefault }", {"aEnumDefault": "RED"}, ("a_enum_default", m.Color.RED)),
        ("a_enum_default", "{ aEnumDefault(c: BLUE) }", {"aEnumDefault": "BLUE"}, ("a_enum_default", m.Color.BLUE)),
        ("a_conv_default", "{ aConvDefault }", {"aConvDefault": 3}, ("a_conv_default", 3)),
        ("a_conv_default", '{ aConvDefault(x: "4") }', {"aConvDefault": 4}, ("a_conv_default", 4)),
        ("in_conv_default", "{ inConvDefault(arg: {}) }", {"inConvDefault": 4}, ("in_conv_default", m.ConvIn(3, 1))),
        ("in_conv_default", '{ inConvDefault(arg: {x: "4", y: 6}) }', {"inConvDefault": 10}, ("in_conv_default", m.ConvIn(4, 6))),
        ("a_str_enum", "{ aStrEnum }", {"aStrEnum": "RED"}, ("a_str_enum", m.StrColor.RED)),
        ("a_str_enum", "{ aStrEnum(c: BLUE) }", {"aStrEnum": "BLUE"}, ("a_str_enum", m.StrColor.BLUE)),
        ("a_two", "{ aTwo(a: 2) }", {"aTwo": "xx"}, ("a_two", 2, "x")),
        ("a_constrained", "{ aConstrained(a: 2) }", {"aConstrained": 2}, ("a_constrained", 2)),
        ("a_constrained", "{ aConstrained(a: 9) }", None, None),
        ("a_constrained", "{ aConstrained(a: -1) }", None, None),
        ("in_list_default", "{ inListDefault(arg: {}) }", {"inListDefault": 0}, ("in_list_default", m.WithListDefault())),
        ("in_list_default", "{ inListDefault(arg: {items: [1], n: 2}) }", {"inListDefault": 1}, ("in_list_default", m.WithListDefault([1], 2))),
        ("by_id", '{ byId(id: "12345678-1234-5678-1234-567812345678") }', {"byId": str(m.THE_ID)}, ("by_id", m.THE_ID)),
        ("by_id", '{ byId(id: "not-a-uuid") }', None, None),
        ("a_opt_req", "{ aOptReq }", {"aOptReq": "None/None"}, ("a_opt_req", None, None)),
        ("a_opt_req", "{ aOptReq(a: 1) }", {"aOptReq": "1/None"}, ("a_opt_req", 1, None)),
        ("a_opt_req", '{ aOptReq(b: "s") }', {"aOptReq": "None/s"}, ("a_opt_req", None, "s")),
        ("a_opt_req", '{ aOptReq(a: 2, b: "t") }', {"aOptReq": "2/t"}, ("a_opt_req", 2, "t")),
        ("a_opt_req", "{ aOptReq(a: null) }", {"aOptReq": "None/None"}, ("a_opt_req", None, None)),
    ]
    for name, query, exp_data, exp_call in runs:
        if name not in built:
            continue
        del m.CALLS[:]
        st.case("world", "run", query)
        r = graphql.graphql_sync(built[name], query)
        if exp_data is None:
            if not r.errors or m.CALLS:
                viol("world_invalid_argument", f"{query}: errors={r.errors} calls={m.CALLS}", op=name)
        elif r.errors or r.data != exp_data or m.CALLS != [exp_call]:
            viol("world_execution", f"{query}: data={r.data} errors={r.errors} calls={m.CALLS}; expected {exp_data} / {exp_call}", op=name)
    # executions do not depend on the executions before them: every ordered pair of the queries of one operation on one
    # schema (the second one checked), and both in one document under two aliases
    by_op: Dict[str, list] = {}
    for name, query, exp_data, exp_call in runs:
        if name in built:
            by_op.setdefault(name, []).append((query, exp_data, exp_call))
    for name, qs in by_op.items():
        for (q1, d1, c1), (q2, d2, c2) in itertools.permutations(qs, 2):
            st.case("world", "run_pair", q1, q2)
            graphql.graphql_sync(built[name], q1)
            del m.CALLS[:]
            r = graphql.graphql_sync(built[name], q2)
            if d2 is None:
                if not r.errors or m.CALLS:
                    viol("world_invalid_argument", f"{q2} after {q1}: errors={r.errors} calls={m.CALLS}", op=name, history=True)
            elif r.errors or r.data != d2 or m.CALLS != [c2]:
                viol("world_execution", f"{q2} after {q1}: data={r.data} errors={r.errors} calls={m.CALLS}; expected {d2} / {c2}", op=name, history=True)
            if d1 is not None and d2 is not None:
                st.case("world", "run_aliases", q1, q2)
                doc = "{ first: " + q1.strip()[1:-1].strip() + " second: " + q2.strip()[1:-1].strip() + " }"
                key1, key2 = next(iter(d1)), next(iter(d2))
                del m.CALLS[:]
                r = graphql.graphql_sync(built[name], doc)
                if r.errors or r.data != {"first": d1[key1], "second": d2[key2]} or m.CALLS != [c1, c2]:
                    viol("world_execution", f"{doc}: data={r.data} errors={r.errors} calls={m.CALLS}; expected {d1[key1]} / {d2[key2]}", op=name, history=True)
    # interfaces / unions / ids
    try:
        s = graphql_schema(query=[m.shapes, m.any_shape, m.with_id, m.failing, Query(m.handled_q, error_handler=None)], id_types={m.uuid.UUID}, types=[m.Circle, m.Square])
        graphql.assert_valid_schema(s)
        st.case("world", "interfaces")
        tm = s.type_map
        if not isinstance(tm.get("Shape"), graphql.GraphQLInterfaceType) or [i.name for i in tm["Circle"].interfaces] != ["Shape"]:
            viol("world_interface", f"Shape / Circle kinds: {tm.get('Shape')!r} {getattr(tm.get('Circle'), 'interfaces', None)}")
        r = graphql.graphql_sync(s, "{ shapes { name ... on Circle { r } ... on Square { side } } }")
        if r.errors or r.data != {"shapes": [{"name": "c", "r": 1.5}, {"name": "s", "side": 3.0}]}:
            viol("world_interface_exec", f"{r.data} {r.errors}")
        u = tm.get("CircleOrSquare")
        if not isinstance(u, graphql.GraphQLUnionType):
            viol("world_union", f"union type missing: {sorted(tm)}")
        r = graphql.graphql_sync(s, "{ anyShape(i: 1) { ... on Square { side name } } }")
        if r.errors or r.data != {"anyShape": {"side": 3.0, "name": "s"}}:
            viol("world_union_exec", f"{r.data} {r.errors}")
        if str(tm["WithId"].fields["id"].type) != "ID!":
            viol("world_id_type", f"{tm['WithId'].fields['id'].type}")
        r = graphql.graphql_sync(s, "{ withId { id n } }")
        if r.errors or r.data != {"withId": {"id": str(m.THE_ID), "n": 1}}:
            viol("world_id_exec", f"{r.data} {r.errors}")
        r = graphql.graphql_sync(s, "{ failing }")
        if not r.errors:
            viol("world_error", "resolver exception not reported")
        r = graphql.graphql_sync(s, "{ handledQ }")
        if r.errors or r.data != {"handledQ": None}:
            viol("world_error_handler", f"{r.data} {r.errors}")
    except Exception as e:
        viol("world_schema_build", f"interfaces world: {e!r}", op="interfaces", exc=type(e).__name__)
    # JSON scalars (mappings, Any): GraphQL resolves nothing below them, their content is serialized as serialize() does
    try:
        s = graphql_schema(query=[m.map_of_objects, m.any_of_objects, m.holds_map])
        graphql.assert_valid_schema(s)
        camel = apischema.utils.to_camel_case
        for q, exp in (
            ("{ mapOfObjects }", {"mapOfObjects": serialize(Mapping[str, m.Wide], m.map_of_objects(), aliaser=camel)}),
            ("{ anyOfObjects }", {"anyOfObjects": serialize(Any, m.any_of_objects(), aliaser=camel)}),
            ("{ holdsMap { byKey anything } }", {"holdsMap": serialize(m.HoldsMap, m.HoldsMap(), aliaser=camel)}),
        ):
            st.case("world", "json_scalars", q)
            r = graphql.graphql_sync(s, q)
            if r.errors or r.data != exp or not json_safe(r.data):
                viol("world_json_scalar", f"{q}: data={r.data!r} errors={[e.message for e in (r.errors or [])][:2]} expected {exp}", op=q.split()[1])
    except Exception as e:
        viol("world_schema_build", f"json scalars world: {e!r}", op="json_scalars", exc=type(e).__name__)
    # interface hierarchies: an object / interface implements every interface-marked ancestor of its MRO
    try:
        s = graphql_schema(query=[m.inodes, m.ientities, m.inamed, m.one_article], types=[m.Article, m.Stamped, m.Account])
        st.case("world", "interface_hierarchy")
        errs = graphql.validate_schema(s)
        if errs:
            viol("world_interface_hierarchy", f"schema does not validate: {[e.message for e in errs][:3]}", op="validate")
        tm = s.type_map
        exp_ifaces = {"Article": ["INode"], "Stamped": ["INode"], "Account": ["INamed", "IEntity"], "INamed": ["IEntity"], "INode": [], "IEntity": []}
        for tn, exp in exp_ifaces.items():
            got = [i.name for i in getattr(tm.get(tn), "interfaces", ())]
            if sorted(got) != sorted(exp):
                viol("world_interface_hierarchy", f"{tn} implements {got}, expected {exp} (every interface class among its ancestors)", op="implements:" + tn)
        for tn in ("INode", "IEntity", "INamed"):
            if not isinstance(tm.get(tn), graphql.GraphQLInterfaceType):
                viol("world_interface_hierarchy", f"{tn} is {tm.get(tn)!r}, expected an interface type", op="kind:" + tn)
        camel = apischema.utils.to_camel_case
        for q, exp in (
            ("{ inodes { ident ... on Article { title ts } ... on Stamped { ts } } }", {"inodes": [serialize(m.Article, m.Article(1, 2, "t"), aliaser=camel), {"ident": 3, "ts": 4}]}),
            ("{ ientities { ident ... on INamed { label } ... on Account { email } } }", {"ientities": [serialize(m.Account, m.Account(1, "n", "e"), aliaser=camel)]}),
            ("{ inamed { ident label ... on Account { email } } }", {"inamed": [serialize(m.Account, m.Account(2, "m", "f"), aliaser=camel)]}),
            ("{ oneArticle { ident ts title } }", {"oneArticle": serialize(m.Article, m.Article(5, 6, "u"), aliaser=camel)}),
        ):
            st.case("world", "interface_hierarchy", q)
            r = graphql.graphql_sync(s, q)
            if r.errors or r.data != exp:
                viol("world_interface_hierarchy", f"{q}: data={r.data} errors={[e.message for e in (r.errors or [])][:2]} expected {exp}", op="exec")
    except Exception as e:
        viol("world_schema_build", f"interface hierarchy world: {e!r}", op="interface_hierarchy", exc=type(e).__name__)
    # resolvers of a flattened object returning object types (also when the type was / was not built before)
    for order, ops_ in (("flattened first", [m.device, m.owner_first]), ("plain first", [m.owner_first, m.device])):
        try:
            s = graphql_schema(query=ops_)
            graphql.assert_valid_schema(s)
            st.case("world", "flattened_resolver", order)
            r = graphql.graphql_sync(s, "{ device { name serial ownerObj { fullName } owner { fullName } keeper { nickName } keeper2 { nickName } tags(n: 2) { label } maybe { fullName } } ownerFirst { fullName } }")
            exp = {"device": {"name": "dev", "serial": 3, "ownerObj": {"fullName": "Ann"}, "owner": {"fullName": "Bob"}, "keeper": {"nickName": "kk"}, "keeper2": {"nickName": "k22"}, "tags": [{"label": "t0"}, {"label": "t1"}], "maybe": None}, "ownerFirst": {"fullName": "Zed"}}
            if r.errors or r.data != exp:
                viol("world_flattened_resolver", f"{order}: data={r.data} errors={r.errors}", order=order)
        except Exception as e:
            viol("world_schema_build", f"flattened resolver world: {e!r}", op="flattened_resolver", exc=type(e).__name__)
    # id encoding
    try:
        import base64

        enc = (lambda s: base64.b64decode(s).decode(), lambda s: base64.b64encode(s.encode()).decode())
        s = graphql_schema(query=[m.with_id, m.by_id], id_types={m.uuid.UUID}, id_encoding=enc)
        st.case("world", "id_encoding")
        r = graphql.graphql_sync(s, "{ withId { id } }")
        e_id = enc[1](str(m.THE_ID))
        if r.errors or r.data != {"withId": {"id": e_id}}:
            viol("world_id_encoding", f"{r.data} {r.errors}")
        del m.CALLS[:]
        r = graphql.graphql_sync(s, '{ byId(id: "%s") }' % e_id)
        if r.errors or m.CALLS != [("by_id", m.THE_ID)]:
            viol("world_id_decoding", f"{r.data} {r.errors} {m.CALLS}")
    except Exception as e:
        viol("world_schema_build", f"id encoding world: {e!r}", op="id_encoding", exc=type(e).__name__)
    # enum_aliaser / aliaser settings
    try:
        s = graphql_schema(query=[m.a_enum_default, m.a_two], aliaser=lambda x: "x_" + x, enum_aliaser=lambda x: x.lower())
        st.case("world", "aliasers")
        if set(s.type_map["Color"].values) != {"red", "blue"} or set(s.query_type.fields) != {"x_a_enum_default", "x_a_two"} or set(s.query_type.fields["x_a_two"].args) != {"x_a", "x_b"}:
            viol("world_aliasers", f"{sorted(s.type_map['Color'].values)} {sorted(s.query_type.fields)}")
    except Exception as e:
        viol("world_schema_build", f"aliasers world: {e!r}", op="aliasers", exc=type(e).__name__)
    # several subscriptions given as plain async generators (all resolved by the same anonymous function)
    try:
        s = graphql_schema(query=[m.a_required], subscription=[m.sub_one, m.sub_two])
        st.case("world", "subscriptions")
        got = {n: str(f.type) for n, f in s.subscription_type.fields.items()}
        if got != {"subOne": "Int!", "subTwo": "String!"}:
            viol("world_subscriptions", f"Subscription fields {got}, expected subOne: Int!, subTwo: String!", op="subscriptions")
    except Exception as e:
        viol("world_schema_build", f"subscriptions world: {e!r}", op="subscriptions", exc=type(e).__name__)
    st.count("worlds", 5)
    import sys

    sys.modules.pop(m.__name__, None)



# ------------------------------------------------------------------ composition of operations
# "every supported SET of operations": the type of an operation, and what executing it returns, do not depend on the
# other operations of the schema nor on their order. Explored exhaustively: every ordered pair (quick) / triple
# (thorough) of the menu below, whose entries share types on purpose (same union twice, a type flattened here and plain
# there, recursion only through resolvers, a conversion carried by a list field).
COMPOSE = '''
import graphql
from apischema.graphql import graphql_schema, resolver, interface
@interface
@dataclass
class CI:
    i: int = 0
@dataclass
class CA(CI):
    x: int = 1
@dataclass
class CB:
    y: int = 2
@dataclass
class CF:
    a: CA = field(default_factory=CA, metadata=flatten)
    z: int = 3
@dataclass
class CG:
    f: CF = field(default_factory=CF, metadata=flatten)
    w: int = 4
@dataclass
class CH:
    a: CA = field(default_factory=lambda: CA(0, 4))
    u: Union[CA, CB] = field(default_factory=lambda: CB(6))
    ou: Optional[Union[CA, CB]] = None
def _to_s(i: int) -> str: return "s" + str(i)
@dataclass
class CL:
    xs: List[int] = field(default_factory=lambda: [1, 2], metadata=conversion(serialization=_to_s))
    o: Optional[int] = field(default=5, metadata=conversion(serialization=_to_s))
@dataclass
class CR:
    v: int = 0
    @resolver
    def me(self) -> "CR": return CR(self.v + 1)
@dataclass
class CR2:
    v: int = 0
    @resolver
    def kids(self) -> List["CR2"]: return [CR2(self.v + 1)]
    @resolver
    def opt(self) -> Optional["CR2"]: return None
    @resolver
    def pal(self) -> CR: return CR(9)
NamedU = Annotated[Union[CA, CB], type_name("NamedU")]
@dataclass
class CBSub(CB):
    extra: int = 9
def b_sub() -> CB: return CBSub(5)            # an instance of a subclass of the declared (non-interface) object type
def b_subs() -> List[CB]: return [CB(1), CBSub(2)]
def u_one() -> Union[CA, CB]: return CA(0, 1)
def u_two() -> Union[CA, CB]: return CB(2)
def u_opt() -> Optional[Union[CA, CB]]: return None
def u_list() -> List[Union[CA, CB]]: return [CA(0, 1), CB(2)]
def nu_one() -> NamedU: return CB(3)
def nu_two() -> NamedU: return CA(1, 3)
def a_plain() -> CA: return CA(0, 7)
def i_face() -> CI: return CA(8, 9)
def f_flat() -> CF: return CF(CA(0, 5), 3)
def g_flat() -> CG: return CG(CF(CA(1, 6), 7), 8)
def h_hold() -> CH: return CH()
def l_conv() -> CL: return CL()
def r_rec() -> CR: return CR()
def r2_rec() -> CR2: return CR2()
U_SEL = "{ ... on CA { x i } ... on CB { y } }"
MENU = {
    "b_sub": ("bSub { y }", {"y": 5}),
    "b_subs": ("bSubs { y }", [{"y": 1}, {"y": 2}]),
    "u_one": ("uOne " + U_SEL, {"x": 1, "i": 0}),
    "u_two": ("uTwo " + U_SEL, {"y": 2}),
    "u_opt": ("uOpt " + U_SEL, None),
    "u_list": ("uList " + U_SEL, [{"x": 1, "i": 0}, {"y": 2}]),
    "nu_one": ("nuOne " + U_SEL, {"y": 3}),
    "nu_two": ("nuTwo " + U_SEL, {"x": 3, "i": 1}),
    "a_plain": ("aPlain { x i }", {"x": 7, "i": 0}),
    "i_face": ("iFace { i ... on CA { x } }", {"i": 8, "x": 9}),
    "f_flat": ("fFlat { x i z }", {"x": 5, "i": 0, "z": 3}),
    "g_flat": ("gFlat { x i z w }", {"x": 6, "i": 1, "z": 7, "w": 8}),
    "h_hold": ("hHold { a { x i } u " + U_SEL + " ou " + U_SEL + " }", {"a": {"x": 4, "i": 0}, "u": {"y": 6}, "ou": None}),
    "l_conv": ("lConv { xs o }", {"xs": ["s1", "s2"], "o": "s5"}),
    "r_rec": ("rRec { v me { v me { v } } }", {"v": 0, "me": {"v": 1, "me": {"v": 2}}}),
    "r2_rec": ("r2Rec { v kids { v kids { v } opt { v } } opt { v } pal { v me { v } } }", {"v": 0, "kids": [{"v": 1, "kids": [{"v": 2}], "opt": None}], "opt": None, "pal": {"v": 9, "me": {"v": 10}}}),
}
'''


def _field_types(s) -> Dict[str, str]:
    """printed type of every field of every object / interface type, and the members of every union"""
    out = {}
    for name, t in s.type_map.items():
        if name.startswith("__"):
            continue
        if isinstance(t, (graphql.GraphQLObjectType, graphql.GraphQLInterfaceType)):
            for fname, f in t.fields.items():
                if name != "Query":
                    out[f"{name}.{fname}"] = str(f.type)
            out[f"{name}:implements"] = ",".join(sorted(i.name for i in t.interfaces))
        elif isinstance(t, graphql.GraphQLUnionType):
            out[f"{name}:members"] = ",".join(sorted(x.name for x in t.types))
    return out


def compose_checks(st: infra.Stats, tier: str, widx: int = 0, nworkers: int = 1):
    import itertools

    m = exec_source(PRELUDE + COMPOSE)
    names = list(m.MENU)

    def viol(kind, what, **sig):
        st.violation({"label": "compose", "signature": dict({"kind": kind}, **sig), "what": what[:500]})

    def build(ops):
        s = graphql_schema(query=[getattr(m, n) for n in ops], types=[m.CA])  # CA: implementation of the interface CI
        graphql.assert_valid_schema(s)
        return s

    # reference: each operation alone (its result must also be what serialize gives where serialize is defined)
    alone: Dict[str, Tuple[str, Dict[str, str]]] = {}
    for n in names:
        q, exp = m.MENU[n]
        st.case("compose", "alone", n)
        try:
            s = build([n])
            r = graphql.graphql_sync(s, "{ " + q + " }")
            key = q.split()[0]
            if r.errors or r.data != {key: exp}:
                viol("compose_alone", f"{n} alone: data={r.data} errors={[e.message for e in (r.errors or [])][:2]} expected {exp}", op=n)
            alone[n] = (str(s.query_type.fields[key].type), _field_types(s))
        except BaseException as e:
            viol("compose_alone", f"{n} alone: {type(e).__name__}: {e}", op=n, exc=type(e).__name__)
    if widx == 0:
        # l_conv executes like serialize
        try:
            exp_ser = serialize(m.CL, m.CL(), aliaser=to_camel_case)
            if exp_ser != m.MENU["l_conv"][1]:
                viol("harness_error", f"menu expectation of l_conv differs from serialize: {exp_ser}")
        except Exception as e:
            viol("harness_error", repr(e))
    size = 3 if tier == "thorough" else 2
    combos = [c for k in range(2, size + 1) for c in itertools.permutations(names, k)]
    for idx, ops in enumerate(combos):
        if idx % nworkers != widx:
            continue
        st.case("compose", len(ops), ops)
        try:
            s = build(ops)
        except BaseException as e:
            viol("compose_build", f"schema of {ops}: {type(e).__name__}: {str(e)[:200]}", exc=type(e).__name__, first=ops[0])
            continue
        ft = _field_types(s)
        r = graphql.graphql_sync(s, "{ " + " ".join(m.MENU[n][0] for n in ops) + " }")
        exp = {m.MENU[n][0].split()[0]: m.MENU[n][1] for n in ops}
        if r.errors or r.data != exp:
            bad = [n for n in ops if (r.data or {}).get(m.MENU[n][0].split()[0], "<absent>") != m.MENU[n][1]]
            viol("compose_exec", f"in the schema of {ops}: data={r.data} errors={[e.message for e in (r.errors or [])][:2]} expected {exp}", op=(bad or ["?"])[0])
        for n in ops:
            if n not in alone:
                continue
            key = m.MENU[n][0].split()[0]
            t_alone, ft_alone = alone[n]
            if str(s.query_type.fields[key].type) != t_alone:
                viol("compose_type", f"{n}: type {s.query_type.fields[key].type} in the schema of {ops}, {t_alone} alone", op=n)
            diff = {k: (v, ft.get(k)) for k, v in ft_alone.items() if ft.get(k) != v}
            if diff:
                viol("compose_type", f"{n}: types reachable from it differ in the schema of {ops}: {diff}", op=n)
    st.count("compose_menu", len(names))
    import sys

    sys.modules.pop(m.__name__, None)


def work(tier, widx, nworkers, st, extra):
    import os

    if os.environ.get("VERIF_ONLY") in (None, "", "world", "compose"):
        try:
            compose_checks(st, tier, widx, nworkers)
        except Exception:
            import traceback

            st.violation({"signature": {"kind": "harness_error"}, "harness_error": True, "what": "compose checks", "traceback": traceback.format_exc()[-2000:]})

    if widx == 0 and os.environ.get("VERIF_ONLY") in (None, "", "world"):
        try:
            world_checks(st)
        except Exception:
            import traceback

            st.violation({"signature": {"kind": "harness_error"}, "harness_error": True, "what": "world checks", "traceback": traceback.format_exc()[-2000:]})
    for i, label, spec in dc.my_types("quick" if tier == "quick" else "thorough", widx, nworkers):
        if in_fragment(label):
            run_type(i, label, spec, tier, st)


def main(tier: str, t0: float) -> int:
    st = infra.run_pool("vf.checks.c19", tier)
    return infra.finish(
        PROP,
        tier,
        st,
        t0,
        rule=RULE,
        coverage_extra={"exhaustive": True, "fragment": {"atoms": sorted(ATOMS), "inner": sorted(INNER), "shapes": sorted(SHAPES)}, "oracle": "graphql-core " + graphql.__version__},
        assumptions=[
            "GraphQL aliaser = camelCase (the default), enum_aliaser = upper-cased member names (the default)",
            "argument data are passed as variables, so graphql-core's own input coercion runs first",
        ],
    )


def replay(path: str) -> int:
    v = json.load(open(path))
    st = infra.Stats()
    if v["label"] == "world":
        world_checks(st)
    else:
        for lab, spec in gen_types("thorough"):
            if lab == v["label"]:
                run_type(1, lab, spec, "thorough", st)
                break
    hits = [x for x in st.violations if x.get("signature") == v.get("signature")]
    for x in hits[:3]:
        print(f"VIOLATION property=C19 replay={path}")
        print(" ", x["what"])
    return 1 if hits else 0
