"""C12 — conversions compose: a converted type behaves as its source / target.
E1 on generated worlds: conversion graphs x placements x contexts x source types x data, with a
commuting-square oracle on the real code (the implementation on the source type is the reference,
C01 / C04 vouch for it)."""
from __future__ import annotations

import itertools
import json
import sys
from typing import Any, Callable, Dict, List, Optional, Tuple, Union

from .. import infra
from .. import world  # noqa
from ..realize import PRELUDE, exec_source

import apischema
from apischema import Unsupported, ValidationError, deserialize, serialize
from apischema.json_schema import deserialization_schema, serialization_schema

PROP = "C12"
RULE = (
    "worlds = conversion graph (single deserializer+serializer, chain of two, two deserializers in both registration "
    "orders, generic Wrapper[T] <-> List[T], generic Box[T] <-> T (bare type variable end; registered and dynamic; T in "
    "{int, str, List[int], dataclass, Optional[int]}; under T / List / Dict), collection-like class with a registered conversion under a dynamic / field conversion "
    "on its elements, constraints declared next to a field / dynamic conversion (schema agreement), locality of a dynamic conversion "
    "with NamedTuple / TypedDict / dataclass objects under T / List / Optional / Dict / Union / Tuple, lazy registration, inherited / non-inherited serializer on a subclass, "
    "catch_value_error converter, class with schema()/type_name annotations) x placement (registered, dynamic "
    "conversion=, Annotated, field metadata, default_conversion function, identity bypass) x source type in {int, str, "
    "List[int], dataclass} x context in {T, List, Optional, Dict, Tuple, Union, object field, object field holding a "
    "list, list of objects} x every datum of a per-source pool embedded in the context. Oracle: deserialize(C[K], d) == "
    "map_C(f, deserialize(C[S], d)) and rejects exactly when C[S] rejects; serialize(C[K], v) == serialize(C[U], "
    "map_C(g, v)); both schemas of C[K] equal those of C[S] / C[U] (plus K's own annotations); dynamic conversions reach "
    "through containers and unions but not into object fields; identity gives the unconverted behaviour. "
    "distinct_nontrivial counts distinct (graph, placement, source, context, datum, direction) tuples."
)

WORLD = '''
import dataclasses
from apischema.conversions import Conversion, LazyConversion, catch_value_error
from apischema import identity

class K:
    def __init__(self, v): self.v = v
    def __eq__(self, o): return type(o) is type(self) and o.v == self.v
    def __hash__(self): return hash(repr(self.v))
    def __repr__(self): return f"{type(self).__name__}({self.v!r})"

@dataclass
class DC:
    a: int = 0

SOURCES = {"int": int, "str": str, "list_int": List[int], "dc": DC}
SRC = SOURCES[SOURCE_NAME]

def f(x: SRC) -> K:
    return K(x)
def g(k: K) -> SRC:
    return k.v

def holder(X):
    return dataclasses.make_dataclass("Holder", [("k", X)])
def holder_list(X):
    return dataclasses.make_dataclass("HolderL", [("ks", List[X], field(default_factory=list))])

# context name -> (type builder, value mapper builder, data embedder)
def contexts(X, fX, H=None, HL=None):
    """X: the type at the leaf; fX: leaf value mapper.  Returns {name: (type, mapper, embed)}"""
    H = H or holder(X)
    HL = HL or holder_list(X)
    return {
        "T": (X, lambda v: fX(v), lambda d: [d]),
        "List": (List[X], lambda v: [fX(x) for x in v], lambda d: [[d], [d, d], []]),
        # (the PEP 604 spelling first: typing makes it equal to Optional[X], the method caches then serve both)
        "Pep604": (X | None, lambda v: None if v is None else fX(v), lambda d: [d, None]),
        "Optional": (Optional[X], lambda v: None if v is None else fX(v), lambda d: [d, None]),
        "Dict": (Dict[str, X], lambda v: {k: fX(x) for k, x in v.items()}, lambda d: [{"k": d}, {}]),
        "Tuple": (Tuple[X, bool], lambda v: (fX(v[0]), v[1]), lambda d: [[d, True], [d]]),
        "Union": (Union[X, bool], lambda v: v if isinstance(v, bool) else fX(v), lambda d: [d, True]),
        # an unsupported alternative (ignored) declared BEFORE the converted one, bare and inside a list
        "UndefFirst": (Union[UndefinedType, X], lambda v: fX(v), lambda d: [d]),
        "ListUndefFirst": (List[Union[UndefinedType, X, None]], lambda v: [None if x is None else fX(x) for x in v], lambda d: [[d], [d, None]]),
        "field": (H, lambda v: v, lambda d: [{"k": d}, {}]),
        "field_list": (HL, lambda v: v, lambda d: [{"ks": [d]}, {"ks": []}]),
        "list_of_field": (List[H], lambda v: v, lambda d: [[{"k": d}]]),
    }
'''

DATA = {
    "int": [0, 1, "a", None, 1.5, []],
    "str": ["a", "", 0, None],
    "list_int": [[], [1, 2], ["a"], 0],
    "dc": [{"a": 1}, {}, {"a": "x"}, 0, {"zz": 1}],
}


def run(fn):
    try:
        return ("ok", fn())
    except ValidationError as e:
        return ("invalid", sorted((tuple(x["loc"]), x["err"]) for x in e.errors))
    except Unsupported:
        return ("unsupported", None)
    except Exception as e:  # noqa
        return ("exc", type(e).__name__ + ": " + str(e)[:80])


def deep_map_holder(v, fX, H, HL):
    """rebuild Holder / HolderL instances of the source world as the converted world's would be"""
    return v


def same(a, b) -> bool:
    """structural equality with classes; dataclass instances compared by class *name* and fields
    (the two worlds build distinct Holder classes)"""
    import dataclasses

    if dataclasses.is_dataclass(a) and dataclasses.is_dataclass(b) and not isinstance(a, type):
        return type(a).__name__ == type(b).__name__ and all(same(getattr(a, f.name), getattr(b, f.name)) for f in dataclasses.fields(a))
    if type(a) is not type(b):
        return False
    if isinstance(a, (list, tuple)):
        return len(a) == len(b) and all(same(x, y) for x, y in zip(a, b))
    if isinstance(a, dict):
        return a.keys() == b.keys() and all(same(a[k], b[k]) for k in a)
    return a == b


def map_holders(v, fX):
    """apply fX at the leaves held by Holder / HolderL instances"""
    import dataclasses

    if isinstance(v, list):
        return [map_holders(x, fX) for x in v]
    if dataclasses.is_dataclass(v) and not isinstance(v, type):
        if type(v).__name__ == "Holder":
            return dataclasses.replace(v, k=fX(v.k))
        if type(v).__name__ == "HolderL":
            return dataclasses.replace(v, ks=[fX(x) for x in v.ks])
    return v


def strip_titles(s):
    return s


def scenario(st: infra.Stats, graph: str, placement: str, source: str):
    pre = f"SOURCE_NAME = {source!r}\n"
    mod = exec_source(PRELUDE + pre + WORLD)
    K, SRC, f, g = mod.K, mod.SRC, mod.f, mod.g
    conv_d: Any = f
    conv_s: Any = g
    dkw: Dict[str, Any] = {}
    skw: Dict[str, Any] = {}
    leaf_K: Any = K
    expected_msg = None
    if graph == "value_error":
        from apischema.conversions import catch_value_error

        def f_checked(x: SRC) -> K:  # type: ignore
            if not x and x is not None and not isinstance(x, bool):
                raise ValueError("empty value refused")
            return K(x)

        f_checked.__annotations__ = {"x": SRC, "return": K}
        conv_d = apischema.conversions.Conversion(catch_value_error(f_checked), source=SRC, target=K)
        expected_msg = "empty value refused"
    if graph == "explicit_source":
        # converters annotated with a wider type than the source they are declared with: the declaration decides

        def f_wide(x):
            return K(x)

        def g_wide(k):
            return g(k)

        f_wide.__annotations__ = {"x": object, "return": K}
        g_wide.__annotations__ = {"k": object, "return": SRC}
        conv_d = apischema.conversions.Conversion(f_wide, source=SRC)
        conv_s = apischema.conversions.Conversion(g_wide, source=K)
    if graph == "lazy":
        if placement != "registered":
            return
        apischema.deserializer(lazy=lambda: apischema.conversions.Conversion(f, source=SRC, target=K), target=K)
        apischema.serializer(lazy=lambda: apischema.conversions.Conversion(g, source=K, target=SRC), source=K)
    elif placement == "registered":
        apischema.deserializer(conv_d)
        apischema.serializer(conv_s)
    elif placement == "dynamic":
        dkw["conversion"] = conv_d
        skw["conversion"] = conv_s
    elif placement == "annotated":
        from apischema.metadata import conversion as conv_md
        from typing import Annotated

        leaf_K = Annotated[K, conv_md(deserialization=conv_d, serialization=conv_s)]
    elif placement == "default_conversion":
        from apischema.conversions.converters import default_deserialization, default_serialization

        dkw["default_conversion"] = lambda tp: conv_d if tp is K else default_deserialization(tp)
        skw["default_conversion"] = lambda tp: conv_s if tp is K else default_serialization(tp)
    elif placement == "field":
        pass

    def fX(x):
        if graph == "value_error" and not x and x is not None and not isinstance(x, bool):
            raise ValueError
        return K(x)

    import dataclasses
    from apischema.metadata import conversion as conv_md

    probe_calls: list = []

    def probe(v):
        probe_calls.append(v)

    from apischema.metadata import validators as validators_md

    if placement == "field":
        H = dataclasses.make_dataclass("Holder", [("k", K, field_with(conv_md(deserialization=conv_d, serialization=conv_s) | validators_md(probe)))])
        ctxK = {"field": (H, None, lambda d: [{"k": d}, {}]), "list_of_field": (list[H], None, lambda d: [[{"k": d}]])}  # type: ignore
        ctxS = mod.contexts(SRC, lambda v: v)
    else:
        ctxK = mod.contexts(leaf_K, lambda v: v)
        ctxS = mod.contexts(SRC, lambda v: v)
    st.count("scenarios")
    for cname in ctxK:
        tK = ctxK[cname][0]
        tS, _, embed = ctxS[cname]
        in_object = cname in ("field", "field_list", "list_of_field")
        for d0 in DATA[source]:
            for d in embed(d0):
                base = {"graph": graph, "placement": placement, "source": source, "context": cname, "datum": repr(d)}
                st.case(graph, placement, source, cname, repr(d), "deser")
                del probe_calls[:]
                got = run(lambda: deserialize(tK, d, **dkw) if placement == "field" else deserialize(tK, d, validators=[probe], **dkw))
                calls = list(probe_calls)
                ref = run(lambda: deserialize(tS, d))
                if placement == "dynamic" and in_object:
                    # locality: a dynamic conversion does not reach into fields of nested objects
                    if got[0] != "unsupported":
                        st.violation(dict(base, signature={"kind": "dynamic_conversion_leaks_into_object", "context": cname}, what=f"dynamic conversion applied inside an object field: {got}"[:300]))
                    continue
                if got[0] == "exc" or ref[0] == "exc":
                    st.violation(dict(base, signature={"kind": "exception", "side": "deser", "graph": graph, "placement": placement}, what=f"deserialize raised: {got} / source {ref}"[:300]))
                    continue
                if ref[0] == "ok":
                    try:
                        exp = ("ok", map_leaves(cname, ref[1], fX))
                    except ValueError:
                        exp = ("invalid", None)
                else:
                    exp = ref
                if got[0] != exp[0]:
                    st.violation(dict(base, signature={"kind": "verdict_differs", "side": "deser", "graph": graph, "placement": placement, "context": cname}, what=f"deserialize(C[K]) = {got} but C[S] gives {ref}"[:400]))
                elif got[0] == "ok" and not same(got[1], exp[1]):
                    st.violation(dict(base, signature={"kind": "value_differs", "side": "deser", "graph": graph, "placement": placement, "context": cname}, what=f"deserialize(C[K]) = {got[1]!r} but f mapped over C[S] gives {exp[1]!r}"[:400]))
                elif got[0] == "invalid" and exp[1] is not None and got[1] != exp[1]:
                    st.violation(dict(base, signature={"kind": "errors_differ", "side": "deser", "graph": graph, "placement": placement, "context": cname}, what=f"errors {got[1]} but C[S] gives {exp[1]}"[:400]))
                elif got[0] == "invalid" and exp[1] is None and expected_msg and not any(expected_msg in m for _, m in got[1]):
                    st.violation(dict(base, signature={"kind": "value_error_message", "graph": graph}, what=f"ValueError message not reported: {got[1]}"[:300]))
                # validators given along with the conversion (validators= of the call / validators metadata of the field)
                # validate the converted value, once
                if got[0] == "ok":
                    holders = got[1] if placement != "field" else ([got[1]] if cname == "field" else list(got[1]))
                    want = [got[1]] if placement != "field" else [h.k for h in holders]
                    if len(calls) != len(want) or not all(same(a, b) for a, b in zip(calls, want)):
                        st.violation(dict(base, signature={"kind": "validators_with_conversion", "graph": graph, "placement": placement, "context": cname}, what=f"validators given with the conversion were called with {calls!r}, expected {want!r}"[:300]))
                # serialization of the obtained value
                if got[0] == "ok":
                    st.case(graph, placement, source, cname, repr(d), "ser")
                    s_got = run(lambda: serialize(tK, got[1], **skw))
                    s_ref = run(lambda: serialize(tS, ref[1]))
                    if s_got != s_ref:
                        st.violation(dict(base, signature={"kind": "serialize_differs", "graph": graph, "placement": placement, "context": cname}, what=f"serialize(C[K], v) = {s_got} but serialize(C[U], g(v)) = {s_ref}"[:400]))
        # schemas
        if not (placement == "dynamic" and in_object):
            for side, fn, kw in (("deser", deserialization_schema, dkw), ("ser", serialization_schema, skw)):
                a = run(lambda: json.loads(json.dumps(fn(tK, **kw))))
                b = run(lambda: json.loads(json.dumps(fn(tS))))
                st.case(graph, placement, source, cname, "schema", side)
                if placement == "default_conversion":
                    # the `default` annotation of a field is computed with the *serialization* settings, which a
                    # per-call deserialization default_conversion cannot provide: compared modulo `default`
                    a, b = strip_default(a), strip_default(b)
                if a != b:
                    st.violation(dict({"graph": graph, "placement": placement, "source": source, "context": cname}, signature={"kind": "schema_differs", "side": side, "graph": graph, "placement": placement, "context": cname}, what=f"{fn.__name__}(C[K]) = {a} but C[S] gives {b}"[:500]))
    sys.modules.pop(mod.__name__, None)
    apischema.cache.reset()


def strip_default(x):
    if isinstance(x, tuple):
        return tuple(strip_default(y) for y in x)
    if isinstance(x, dict):
        return {k: strip_default(v) for k, v in x.items() if k != "default"}
    if isinstance(x, list):
        return [strip_default(v) for v in x]
    return x


def field_with(md):
    import dataclasses

    return dataclasses.field(metadata=md)


def map_leaves(cname: str, v, fX):
    if cname == "T":
        return fX(v)
    if cname == "List":
        return [fX(x) for x in v]
    if cname in ("Optional", "Pep604"):
        return None if v is None else fX(v)
    if cname == "Dict":
        return {k: fX(x) for k, x in v.items()}
    if cname == "Tuple":
        return (fX(v[0]), v[1])
    if cname == "Union":
        return v if isinstance(v, bool) else fX(v)
    if cname == "UndefFirst":
        return fX(v)
    if cname == "ListUndefFirst":
        return [None if x is None else fX(x) for x in v]
    return map_holders(v, fX)


RECURSIVE_FIELD_CONV = '''
@dataclass
class RBoxed:
    node: "RNode"
# element-level converters: the field conversion reaches the items through the list, i.e. the class is visited again,
# inside its own visit, under another conversion
def box(node: "RNode") -> RBoxed: return RBoxed(node)
def unbox(boxed: RBoxed) -> "RNode": return boxed.node
@dataclass
class RNode:
    v: int = 0
    children: List["RNode"] = field(default_factory=list, metadata=conversion(deserialization=unbox, serialization=box))
# a recursive class one of whose plain fields carries a field conversion, the type of that field having registered converters too
class RStamp:
    def __init__(self, n): self.n = n
    def __eq__(self, o): return type(o) is RStamp and o.n == self.n
    def __repr__(self): return f"RStamp({self.n})"
def rstamp_to_str(s: RStamp) -> str: return f"stamp-{s.n}"
def rstamp_from_str(t: str) -> RStamp: return RStamp(int(t[6:]))
def rstamp_to_int(s: RStamp) -> int: return s.n
def rstamp_from_int(i: int) -> RStamp: return RStamp(i)
serializer(rstamp_to_str)
deserializer(rstamp_from_str)
@dataclass
class RNode2:
    plain: RStamp
    converted: RStamp = field(metadata=conversion(deserialization=rstamp_from_int, serialization=rstamp_to_int))
    children: List["RNode2"] = field(default_factory=list)
'''

SPECIAL = '''
from apischema.conversions import Conversion, LazyConversion, catch_value_error, reset_deserializers
from apischema import identity
class K:
    def __init__(self, v): self.v = v
    def __eq__(self, o): return type(o) is type(self) and o.v == self.v
    def __repr__(self): return f"{type(self).__name__}({self.v!r})"
class K2(K): pass
class KSub(K): pass
class KSubNI(K): pass
class N(K): pass

def k_from_int(x: int) -> K: return K(x)
def k_from_str(x: str) -> K: return K("s:" + x)
def k2_from_int(x: int) -> K2: return K2(x)
def n_from_k2(k: K2) -> N: return N(k)
def n_to_k2(n: N) -> K2: return n.v
def k2_to_int(k: K2) -> int: return k.v

TV = TypeVar("TV")
class Wrapper(Generic[TV]):
    def __init__(self, items): self.items = items
    def __eq__(self, o): return isinstance(o, Wrapper) and o.items == self.items
    def __repr__(self): return f"Wrapper({self.items!r})"
def wrap(items: List[TV]) -> Wrapper[TV]: return Wrapper(items)
def unwrap(w: Wrapper[TV]) -> List[TV]: return w.items

class Box(Generic[TV]):
    def __init__(self, item): self.item = item
    def __eq__(self, o): return isinstance(o, Box) and o.item == self.item
    def __repr__(self): return f"Box({self.item!r})"
def box(item: TV) -> Box[TV]: return Box(item)
def unbox(b: Box[TV]) -> TV: return b.item
@dataclass
class Pt:
    x: int
    y: int = 0

class PtPath(Collection[Pt]):
    """collection-like class with a registered conversion: a dynamic conversion on Pt is carried through it"""
    def __init__(self, *pts): self.pts = list(pts)
    def __iter__(self): return iter(self.pts)
    def __len__(self): return len(self.pts)
    def __contains__(self, x): return x in self.pts
    def __eq__(self, o): return isinstance(o, PtPath) and o.pts == self.pts
    def __repr__(self): return f"PtPath{tuple(self.pts)!r}"
def path_to_list(p: PtPath) -> List[Pt]: return list(p)
def path_from_list(l: List[Pt]) -> PtPath: return PtPath(*l)
def pt_to_str(p: Pt) -> str: return f"{p.x},{p.y}"
def pt_from_str(s: str) -> Pt:
    x, y = s.split(",")
    return Pt(int(x), int(y))
@dataclass
class Drawing:
    name: str
    outline: PtPath = field(metadata=conversion(serialization=pt_to_str, deserialization=pt_from_str))
    raw: PtPath = field(default_factory=PtPath)

class TagNT(NamedTuple):
    tag: str
    n: int = 0
class TagTD(TypedDict):
    tag: str
@dataclass
class TagDC:
    tag: str = ""
def tag_from_int(x: int) -> str: return "t" + str(x)
def tag_to_int(s: str) -> int: return len(s)
def str_from_int(x: int) -> str: return str(x)
def int_to_str(x: int) -> str: return str(x)
@dataclass
class ConvCons:
    a: str = field(default="0", metadata=conversion(deserialization=str_from_int) | schema(min=0, max=5))
    b: List[K] = field(default_factory=list, metadata=conversion(deserialization=k_from_int) | schema(max_items=1))

@schema(description="a K with annotations", min=0)
@type_name("KNamed")
class KA(K): pass
def ka_from_int(x: int) -> KA: return KA(x)
def ka_to_int(k: KA) -> int: return k.v

@dataclass
class IdDC:
    a: int = 0
def iddc_from_int(x: int) -> IdDC: return IdDC(x)
def iddc_to_int(v: IdDC) -> int: return v.a
'''


def special_worlds(st: infra.Stats):
    from apischema.conversions import Conversion

    def viol(kind, what, **sig):
        st.violation({"signature": dict({"kind": kind}, **sig), "what": what[:400], "graph": kind})

    def _guard(title, fn):
        try:
            fn()
        except Exception as e:  # the library raised where the unchanged tree does not
            viol("world_exception", f"{title}: {e!r}", world=title.split(" ")[0], exc=type(e).__name__)
        finally:
            apischema.cache.reset()
    def _sec_0():  # two deserializers, both registration orders
        for order in ("int_first", "str_first"):
            m = exec_source(PRELUDE + SPECIAL)
            fs = [m.k_from_int, m.k_from_str] if order == "int_first" else [m.k_from_str, m.k_from_int]
            for fn in fs:
                apischema.deserializer(fn)
            for d in (1, "a", None, 1.5, [], True):
                st.case("two_deserializers", order, repr(d))
                got = run(lambda: deserialize(m.K, d))
                alts = [run(lambda fn=fn, S=S: fn(deserialize(S, d))) for fn, S in ((fs[0], int if fs[0] is m.k_from_int else str), (fs[1], int if fs[1] is m.k_from_int else str))]
                exp = next((a for a in alts if a[0] == "ok"), None)
                if (exp is None) != (got[0] != "ok") or (exp is not None and got[1] != exp[1]):
                    viol("two_deserializers", f"{order}: deserialize(K, {d!r}) = {got}, alternatives in registration order give {alts}", order=order)
            sch = deserialization_schema(m.K)
            exp_types = ["integer", "string"] if order == "int_first" else ["string", "integer"]
            if sch.get("type") != exp_types and [a.get("type") for a in sch.get("anyOf", [])] != exp_types:
                viol("two_deserializers_schema", f"{order}: schema {sch}", order=order)
            sys.modules.pop(m.__name__, None)
            apischema.cache.reset()
    _guard('two deserializers, both registration orders', _sec_0)
    def _sec_1():  # chain N <- K2 <- int
        m = exec_source(PRELUDE + SPECIAL)
        apischema.deserializer(m.k2_from_int)
        apischema.deserializer(m.n_from_k2)
        apischema.serializer(m.n_to_k2)
        apischema.serializer(m.k2_to_int)
        for d in (1, "a", None):
            st.case("chain", repr(d))
            got = run(lambda: deserialize(m.N, d))
            ref = run(lambda: deserialize(int, d))
            if got[0] != ref[0] or (got[0] == "ok" and got[1] != m.N(m.K2(ref[1]))) or (got[0] == "invalid" and got[1] != ref[1]):
                viol("chain", f"deserialize(N, {d!r}) = {got}; int gives {ref}")
        if serialize(m.N, m.N(m.K2(3))) != 3 or serialize(List[m.N], [m.N(m.K2(3))]) != [3]:
            viol("chain_serialize", f"serialize(N(K2(3))) = {serialize(m.N, m.N(m.K2(3)))}")
        if deserialization_schema(m.N) != deserialization_schema(int) or serialization_schema(m.N) != serialization_schema(int):
            viol("chain_schema", f"{deserialization_schema(m.N)}")
        sys.modules.pop(m.__name__, None)
        apischema.cache.reset()
    _guard('chain N <- K2 <- int', _sec_1)
    def _sec_2():  # generic
        m = exec_source(PRELUDE + SPECIAL)
        apischema.deserializer(m.wrap)
        apischema.serializer(m.unwrap)
        for T, d in ((int, [1, 2]), (int, ["a"]), (str, ["a"]), (str, [1]), (int, []), (int, 0)):
            st.case("generic", T.__name__, repr(d))
            got = run(lambda: deserialize(m.Wrapper[T], d))
            ref = run(lambda: deserialize(List[T], d))
            if got[0] != ref[0] or (got[0] == "ok" and got[1] != m.Wrapper(ref[1])) or (got[0] == "invalid" and got[1] != ref[1]):
                viol("generic", f"deserialize(Wrapper[{T.__name__}], {d!r}) = {got}; List gives {ref}")
            if got[0] == "ok" and serialize(m.Wrapper[T], got[1]) != d:
                viol("generic_serialize", f"{serialize(m.Wrapper[T], got[1])} != {d}")
        for T in (int, str):
            if deserialization_schema(m.Wrapper[T]) != deserialization_schema(List[T]):
                viol("generic_schema", f"{deserialization_schema(m.Wrapper[T])}")
        sys.modules.pop(m.__name__, None)
        apischema.cache.reset()
    _guard('generic', _sec_2)
    def _sec_3():  # inherited / non inherited serializer
        m = exec_source(PRELUDE + SPECIAL)
        apischema.serializer(Conversion(lambda k: k.v, source=m.K, target=int))
        st.case("inherited")
        if serialize(m.KSub, m.KSub(4)) != 4 or serialize(m.KSub(4)) != 4 or serialize(List[m.KSub], [m.KSub(4)]) != [4]:
            viol("inherited_serializer", "subclass does not inherit the serializer of its base")
        if serialization_schema(m.KSub) != serialization_schema(int):
            viol("inherited_serializer_schema", f"{serialization_schema(m.KSub)}")
        sys.modules.pop(m.__name__, None)
        apischema.cache.reset()
        m = exec_source(PRELUDE + SPECIAL)
        apischema.serializer(Conversion(lambda k: k.v, source=m.K, target=int, inherited=False))
        st.case("not_inherited")
        r = run(lambda: serialize(m.KSubNI, m.KSubNI(4), fall_back_on_any=False))
        if r[0] == "ok":
            viol("not_inherited_serializer", f"inherited=False serializer applied to a subclass: {r}")
        if serialize(m.K, m.K(4)) != 4:
            viol("not_inherited_serializer", "inherited=False serializer not applied to the class itself")
        sys.modules.pop(m.__name__, None)
        apischema.cache.reset()
    _guard('inherited / non inherited serializer', _sec_3)
    def _sec_4():  # annotations of the converted class are merged in the schemas
        m = exec_source(PRELUDE + SPECIAL)
        apischema.deserializer(m.ka_from_int)
        apischema.serializer(m.ka_to_int)
        st.case("annotations")
        for fn in (deserialization_schema, serialization_schema):
            s = fn(m.KA)
            if s.get("description") != "a K with annotations" or s.get("minimum") != 0 or s.get("type") != "integer":
                viol("annotations_lost", f"{fn.__name__}(KA) = {s}")
            s2 = fn(List[m.KA], all_refs=True)
            if "KNamed" not in s2.get("$defs", {}) or s2.get("items") != {"$ref": "#/$defs/KNamed"}:
                viol("type_name_lost", f"{fn.__name__}(List[KA], all_refs=True) = {s2}")
        for d in (1, -1, "a"):
            st.case("annotations", repr(d))
            got = run(lambda: deserialize(m.KA, d))
            if (d == 1) != (got[0] == "ok"):
                viol("annotations_constraints", f"deserialize(KA, {d!r}) = {got} (schema(min=0) registered on KA)")
        sys.modules.pop(m.__name__, None)
        apischema.cache.reset()
    _guard('annotations of the converted class are merged in the schemas', _sec_4)
    def _sec_5():  # identity bypasses a registered conversion
        m = exec_source(PRELUDE + SPECIAL)
        apischema.deserializer(m.iddc_from_int)
        apischema.serializer(m.iddc_to_int)
        from apischema import identity

        for d in (1, {"a": 2}, {}, "x"):
            st.case("identity", repr(d))
            conv = run(lambda: deserialize(m.IdDC, d))
            byp = run(lambda: deserialize(m.IdDC, d, conversion=identity))
            exp_conv = ("ok", m.IdDC(d)) if isinstance(d, int) else None
            if isinstance(d, int) and (conv != exp_conv or byp[0] == "ok"):
                viol("identity_bypass", f"d={d!r}: registered -> {conv}, identity -> {byp}")
            if isinstance(d, dict) and (byp != ("ok", m.IdDC(**d)) or conv[0] == "ok"):
                viol("identity_bypass", f"d={d!r}: registered -> {conv}, identity -> {byp}")
        if serialize(m.IdDC, m.IdDC(3)) != 3 or serialize(m.IdDC, m.IdDC(3), conversion=identity) != {"a": 3}:
            viol("identity_bypass_serialize", f"{serialize(m.IdDC, m.IdDC(3))} / {serialize(m.IdDC, m.IdDC(3), conversion=identity)}")
        if deserialization_schema(m.IdDC, conversion=identity).get("type") != "object" or deserialization_schema(m.IdDC).get("type") != "integer":
            viol("identity_bypass_schema", f"{deserialization_schema(m.IdDC, conversion=identity)}")
        sys.modules.pop(m.__name__, None)
        apischema.cache.reset()
    _guard('identity bypasses a registered conversion', _sec_5)
    def _sec_6():  # generic conversion whose far end is a bare type variable: T <-> Box[T]
        for placement in ("registered", "dynamic"):
            m = exec_source(PRELUDE + SPECIAL)
            dkw: Dict[str, Any] = {}
            skw: Dict[str, Any] = {}
            if placement == "registered":
                apischema.deserializer(m.box)
                apischema.serializer(m.unbox)
            else:
                dkw["conversion"] = m.box
                skw["conversion"] = m.unbox
            for tname, T, data in (
                ("int", int, (1, "a", None)),
                ("str", str, ("a", 1)),
                ("list_int", List[int], ([1, 2], ["a"], 0)),
                ("dc", m.Pt, ({"x": 1}, {"x": "a"}, {"y": 1}, {"x": 1, "y": 2})),
                ("opt_int", Optional[int], (None, 1, "a")),
            ):
                for ctx_name, wrap_t, wrap_d, wrap_v in (
                    ("T", lambda X: X, lambda d: d, lambda f, v: f(v)),
                    ("List", lambda X: List[X], lambda d: [d], lambda f, v: [f(x) for x in v]),
                    ("Dict", lambda X: Dict[str, X], lambda d: {"k": d}, lambda f, v: {k: f(x) for k, x in v.items()}),
                ):
                    for d in data:
                        st.case("typevar_end", placement, tname, ctx_name, repr(d))
                        got = run(lambda: deserialize(wrap_t(m.Box[T]), wrap_d(d), **dkw))
                        ref = run(lambda: deserialize(wrap_t(T), wrap_d(d)))
                        if got[0] != ref[0] or (got[0] == "ok" and got[1] != wrap_v(m.Box, ref[1])) or (got[0] == "invalid" and got[1] != ref[1]):
                            viol("typevar_end", f"{placement}: deserialize({ctx_name}[Box[{tname}]], {wrap_d(d)!r}) = {got}; {ctx_name}[{tname}] gives {ref}", placement=placement, direction="deserialize")
                        if ref[0] == "ok":
                            v = wrap_v(m.Box, ref[1])
                            s1 = run(lambda: serialize(wrap_t(m.Box[T]), v, check_type=True, **skw))
                            s2 = run(lambda: serialize(wrap_t(T), ref[1], check_type=True))
                            if s1 != s2:
                                viol("typevar_end", f"{placement}: serialize({ctx_name}[Box[{tname}]], {v!r}) = {s1}; {ctx_name}[{tname}] gives {s2}", placement=placement, direction="serialize")
                        else:
                            # an ill-typed content must be refused by the type check exactly as for T itself
                            bad = wrap_v(m.Box, wrap_d(d)) if ctx_name == "T" else None
                            if bad is not None:
                                s1 = run(lambda: serialize(m.Box[T], m.Box(d), check_type=True, **skw))
                                s2 = run(lambda: serialize(T, d, check_type=True))
                                if s1[0] != s2[0]:
                                    viol("typevar_end", f"{placement}: serialize(Box[{tname}], Box({d!r}), check_type=True) = {s1}; {tname} gives {s2}", placement=placement, direction="serialize_check_type")
                    for fn, kw in ((deserialization_schema, dkw), (serialization_schema, skw)):
                        a, b = run(lambda: fn(wrap_t(m.Box[T]), **kw)), run(lambda: fn(wrap_t(T)))
                        if a != b:
                            viol("typevar_end_schema", f"{placement}: {fn.__name__}({ctx_name}[Box[{tname}]]) = {a} != {b}", placement=placement)
            sys.modules.pop(m.__name__, None)
            apischema.cache.reset()
    _guard('typevar-ended generic conversion', _sec_6)
    def _sec_7():  # dynamic / field conversion carried through the registered conversion of a collection-like class
        m = exec_source(PRELUDE + SPECIAL)
        apischema.serializer(m.path_to_list)
        apischema.deserializer(m.path_from_list)
        pts = [m.Pt(0, 0), m.Pt(1, 2)]
        path = m.PtPath(*pts)
        for ctx_name, T_, L_, v, lv in (
            ("T", m.PtPath, List[m.Pt], path, pts),
            ("List", List[m.PtPath], List[List[m.Pt]], [path], [pts]),
            ("Optional", Optional[m.PtPath], Optional[List[m.Pt]], path, pts),
            ("Dict", Dict[str, m.PtPath], Dict[str, List[m.Pt]], {"k": path}, {"k": pts}),
        ):
            for conv_name, skw, dkw in (("none", {}, {}), ("dynamic", {"conversion": m.pt_to_str}, {"conversion": m.pt_from_str})):
                st.case("collection_like", ctx_name, conv_name)
                a, b = run(lambda: serialize(T_, v, **skw)), run(lambda: serialize(L_, lv, **skw))
                if a != b:
                    viol("collection_like", f"serialize({ctx_name}[PtPath], conversion={conv_name}) = {a}; with List[Pt] in its place {b}", context=ctx_name, conv=conv_name, direction="serialize")
                sa, sb = run(lambda: serialization_schema(T_, **skw)), run(lambda: serialization_schema(L_, **skw))
                if sa != sb:
                    viol("collection_like_schema", f"serialization_schema({ctx_name}[PtPath], conversion={conv_name}) = {sa} != {sb}", context=ctx_name, conv=conv_name)
                if b[0] == "ok":
                    d = b[1]
                    ga, gb = run(lambda: deserialize(T_, d, **dkw)), run(lambda: deserialize(L_, d, **dkw))
                    if ga[0] != gb[0] or (ga[0] == "ok" and serialize(T_, ga[1], **skw) != d):
                        viol("collection_like", f"deserialize({ctx_name}[PtPath], {d!r}, conversion={conv_name}) = {ga}; List[Pt] gives {gb}", context=ctx_name, conv=conv_name, direction="deserialize")
                    da, db = run(lambda: deserialization_schema(T_, **dkw)), run(lambda: deserialization_schema(L_, **dkw))
                    if da != db:
                        viol("collection_like_schema", f"deserialization_schema({ctx_name}[PtPath], conversion={conv_name}) = {da} != {db}", context=ctx_name, conv=conv_name)
        st.case("collection_like", "field")
        dr = m.Drawing("d", path, m.PtPath(m.Pt(3, 4)))
        exp = {"name": "d", "outline": ["0,0", "1,2"], "raw": [{"x": 3, "y": 4}]}
        got = run(lambda: serialize(m.Drawing, dr))
        if got != ("ok", exp):
            viol("collection_like", f"serialize(Drawing) = {got}, expected {exp}", context="field", conv="field", direction="serialize")
        back = run(lambda: deserialize(m.Drawing, exp))
        if back != ("ok", dr):
            viol("collection_like", f"deserialize(Drawing, {exp}) = {back}", context="field", conv="field", direction="deserialize")
        sch = run(lambda: serialization_schema(m.Drawing))
        if sch[0] != "ok" or sch[1]["properties"]["outline"].get("items") != {"type": "string"} or sch[1]["properties"]["raw"].get("items", {}).get("type", "object") != "object":
            viol("collection_like_schema", f"serialization_schema(Drawing) = {sch}", context="field", conv="field")
        sys.modules.pop(m.__name__, None)
        apischema.cache.reset()
    _guard('collection-like class with a registered conversion under a dynamic conversion', _sec_7)
    def _sec_8():  # constraints given next to a field / dynamic conversion bear on the source of the conversion
        from jsonschema import Draft202012Validator

        m = exec_source(PRELUDE + SPECIAL)
        cases = [
            ("ConvCons", m.ConvCons, {}, [{}, {"a": 0}, {"a": 5}, {"a": -1}, {"a": 6}, {"a": "1"}, {"b": []}, {"b": [1]}, {"b": [1, 2]}, {"b": ["x"]}]),
            ("K+dynamic+schema", m.K, {"conversion": m.k_from_int, "schema": apischema.schema(min=0)}, [0, 3, -1, "a"]),
            ("List[K]+dynamic+schema", List[m.K], {"conversion": m.k_from_int, "schema": apischema.schema(max_items=1)}, [[], [1], [1, 2], [-1]]),
        ]
        for name, tp, kw, data in cases:
            sch = run(lambda: deserialization_schema(tp, **kw))
            if sch[0] != "ok":
                viol("conversion_constraints", f"{name}: deserialization_schema raised {sch}", world=name)
                continue
            validator = Draft202012Validator(sch[1])
            for d in data:
                st.case("conversion_constraints", name, repr(d))
                got = run(lambda: deserialize(tp, d, **kw))
                if (got[0] == "ok") != validator.is_valid(d):
                    viol("conversion_constraints", f"{name} <- {d!r}: deserialize {'accepts' if got[0] == 'ok' else 'rejects'} ({got[1]!r}) but its schema {json.dumps(sch[1])[:200]} says the opposite", world=name)
        sys.modules.pop(m.__name__, None)
        apischema.cache.reset()
    _guard('constraints next to a conversion', _sec_8)
    def _sec_9():  # a dynamic conversion goes through containers and unions, never into the fields of an object
        m = exec_source(PRELUDE + SPECIAL)
        objs = (("NamedTuple", m.TagNT, lambda d: m.TagNT(**d)), ("TypedDict", m.TagTD, lambda d: dict(d)), ("dataclass", m.TagDC, lambda d: m.TagDC(**d)))
        wraps = (
            ("T", lambda X: X, lambda d: d),
            ("List", lambda X: List[X], lambda d: [d]),
            ("Optional", lambda X: Optional[X], lambda d: d),
            # (no Dict[str, X]: its keys are str, to which the conversion rightly applies)
            ("Union", lambda X: Union[X, bool], lambda d: d),
            ("Tuple", lambda X: Tuple[X, bool], lambda d: [d, True]),
        )
        for oname, O, mk in objs:
            for wname, wt, wd in wraps:
                T_ = wt(O)
                for d0 in ({"tag": "a"}, {"tag": 1}, {}):
                    d = wd(d0)
                    st.case("conversion_locality", oname, wname, repr(d0))
                    a = run(lambda: deserialize(T_, d, conversion=m.tag_from_int))
                    b = run(lambda: deserialize(T_, d))
                    if a != b:
                        viol("conversion_locality", f"deserialize({wname}[{oname}], {d!r}, conversion=int->str) = {a} but without the conversion {b}: the conversion reached a field of a nested object", object=oname, direction="deserialize")
                v = wd(mk({"tag": "abc"})) if wname != "Tuple" else (mk({"tag": "abc"}), True)
                if wname == "List":
                    v = [mk({"tag": "abc"})]
                elif wname in ("T", "Optional", "Union"):
                    v = mk({"tag": "abc"})
                a = run(lambda: serialize(T_, v, conversion=m.tag_to_int))
                b = run(lambda: serialize(T_, v))
                if a != b:
                    viol("conversion_locality", f"serialize({wname}[{oname}], conversion=str->int) = {a} but without the conversion {b}", object=oname, direction="serialize")
                for fn, conv in ((deserialization_schema, m.tag_from_int), (serialization_schema, m.tag_to_int)):
                    a, b = run(lambda: fn(T_, conversion=conv)), run(lambda: fn(T_))
                    if a != b:
                        viol("conversion_locality_schema", f"{fn.__name__}({wname}[{oname}], conversion=...) = {a} != {b}", object=oname)
        # the leaf itself is converted through the same containers (the conversion does reach through them)
        for wname, wt, wd in wraps[:3]:
            st.case("conversion_locality", "leaf", wname)
            a = run(lambda: deserialize(wt(str), wd(3), conversion=m.tag_from_int))
            exp = {"T": "t3", "List": ["t3"], "Optional": "t3"}[wname]
            if a != ("ok", exp):
                viol("conversion_locality", f"deserialize({wname}[str], {wd(3)!r}, conversion=int->str) = {a}, expected {exp!r}", object="leaf", direction="deserialize")
        # an Annotated conversion given for the other direction only changes nothing in this one: the dynamic conversion
        # still reaches the leaf
        from typing import Annotated as _Ann

        from apischema.metadata import conversion as _conv_md

        for wname, wt, wd in wraps[:3]:
            st.case("conversion_locality", "other_direction_annotation", wname)
            plain = wt(str)
            ann_d = _Ann[plain, _conv_md(serialization=m.tag_to_int)]
            a, b = run(lambda: deserialize(ann_d, wd(3), conversion=m.tag_from_int)), run(lambda: deserialize(plain, wd(3), conversion=m.tag_from_int))
            if a != b:
                viol("conversion_locality", f"deserialize(Annotated[{wname}[str], conversion(serialization=...)], {wd(3)!r}, conversion=int->str) = {a} but without the annotation {b}", object="other_direction_annotation", direction="deserialize")
            ann_s = _Ann[plain, _conv_md(deserialization=m.tag_from_int)]
            a, b = run(lambda: serialize(ann_s, wd("abc"), conversion=m.tag_to_int)), run(lambda: serialize(plain, wd("abc"), conversion=m.tag_to_int))
            if a != b:
                viol("conversion_locality", f"serialize(Annotated[{wname}[str], conversion(deserialization=...)], {wd('abc')!r}, conversion=str->int) = {a} but without the annotation {b}", object="other_direction_annotation", direction="serialize")
            for fn, ann, conv in ((deserialization_schema, ann_d, m.tag_from_int), (serialization_schema, ann_s, m.tag_to_int)):
                a, b = run(lambda: fn(ann, conversion=conv)), run(lambda: fn(plain, conversion=conv))
                if a != b:
                    viol("conversion_locality_schema", f"{fn.__name__}(Annotated[{wname}[str], <other direction>], conversion=...) = {a} != {b}", object="other_direction_annotation")
        sys.modules.pop(m.__name__, None)
        apischema.cache.reset()
    _guard('locality of dynamic conversions', _sec_9)
    def _sec_10():  # a field conversion on a recursive field whose converted type leads back to the class
        m = exec_source(PRELUDE + RECURSIVE_FIELD_CONV)
        tree = m.RNode(1, [m.RNode(2, [m.RNode(3)]), m.RNode(4)])
        data = {"v": 1, "children": [{"node": {"v": 2, "children": [{"node": {"v": 3, "children": []}}]}}, {"node": {"v": 4, "children": []}}]}
        for route, ser, des in (("typed", lambda: serialize(m.RNode, tree), lambda: deserialize(m.RNode, data)), ("untyped", lambda: serialize(tree), None), ("in list", lambda: serialize(List[m.RNode], [tree])[0], lambda: deserialize(List[m.RNode], [data])[0])):
            st.case("recursive_field_conversion", route)
            a = run(ser)
            if a != ("ok", data):
                viol("recursive_field_conversion", f"serialize ({route}) = {a}, expected the children boxed at every depth: {data}", direction="serialize", route=route)
            if des is not None:
                b = run(des)
                if b != ("ok", tree):
                    viol("recursive_field_conversion", f"deserialize ({route}) = {b}, expected {tree}", direction="deserialize", route=route)
        # the same through every container kind, the recursive class coming after a non-recursive sibling (another
        # element / alternative / field visited first at the same level), each on cold caches and then on warm ones
        import collections as _c
        import dataclasses
        from typing import Mapping as _Mapping

        tree2 = m.RNode2(m.RStamp(1), m.RStamp(2), [m.RNode2(m.RStamp(3), m.RStamp(4))])
        data2 = {"plain": "stamp-1", "converted": 2, "children": [{"plain": "stamp-3", "converted": 4, "children": []}]}
        for ncls, ntree, ndata in ((m.RNode, tree, data), (m.RNode2, tree2, data2)):
            HoldAfter = dataclasses.make_dataclass("HoldAfter", [("a", int), ("n", ncls)])
            HoldBefore = dataclasses.make_dataclass("HoldBefore", [("n", ncls), ("a", int)])
            wrappers = [
                ("T", ncls, lambda x: x, lambda x: x),
                ("List", List[ncls], lambda x: [x], lambda x: [x]),
                ("Dict", Dict[str, ncls], lambda x: {"k": x}, lambda x: {"k": x}),
                ("Mapping", _Mapping[str, ncls], lambda x: {"k": x}, lambda x: {"k": x}),
                ("Tuple[int,X]", Tuple[int, ncls], lambda x: (0, x), lambda x: [0, x]),
                ("Tuple[X,int]", Tuple[ncls, int], lambda x: (x, 0), lambda x: [x, 0]),
                ("Union[int,X]", Union[int, ncls], lambda x: x, lambda x: x),
                ("Union[X,int]", Union[ncls, int], lambda x: x, lambda x: x),
                ("Optional", Optional[ncls], lambda x: x, lambda x: x),
                ("List[Optional]", List[Optional[ncls]], lambda x: [None, x], lambda x: [None, x]),
                ("Dict[str,List]", Dict[str, List[ncls]], lambda x: {"k": [x]}, lambda x: {"k": [x]}),
                ("field after int", HoldAfter, lambda x, H=HoldAfter: H(0, x), lambda x: {"a": 0, "n": x}),
                ("field before int", HoldBefore, lambda x, H=HoldBefore: H(x, 0), lambda x: {"n": x, "a": 0}),
            ]
            for cold in (True, False):
                for wname, wt, wv, wdat in wrappers:
                    if cold:
                        apischema.cache.reset()
                    st.case("recursive_field_conversion", "wrapped", ncls.__name__, wname, cold)
                    a = run(lambda: serialize(wt, wv(ntree)))
                    if a != ("ok", wdat(ndata)):
                        viol("recursive_field_conversion", f"serialize({wname} of {ncls.__name__}) = {a}, expected {wdat(ndata)} ({'cold' if cold else 'warm'} caches)", direction="serialize", route="wrapped")
                    b = run(lambda: deserialize(wt, wdat(ndata)))
                    if b != ("ok", wv(ntree)):
                        viol("recursive_field_conversion", f"deserialize({wname} of {ncls.__name__}) = {b}, expected {wv(ntree)} ({'cold' if cold else 'warm'} caches)", direction="deserialize", route="wrapped")
        unboxed = {"v": 1, "children": [{"v": 2, "children": []}]}
        b = run(lambda: deserialize(m.RNode, unboxed))
        if b[0] != "invalid":
            viol("recursive_field_conversion", f"deserialize accepts the unconverted shape {unboxed}: {b}", direction="deserialize", route="unconverted shape")
        for fn in (deserialization_schema, serialization_schema):
            sch = run(lambda: fn(m.RNode))
            ok = sch[0] == "ok" and '"node"' in json.dumps(sch[1])  # the items are boxed: objects with a `node` property
            if not ok:
                viol("recursive_field_conversion_schema", f"{fn.__name__}(RNode) does not go through RBoxed: {str(sch)[:300]}", route=fn.__name__)
        sys.modules.pop(m.__name__, None)
        apischema.cache.reset()
    _guard('field conversion on a recursive field', _sec_10)
    st.count("special_worlds", 13)




GRAPHS = ["single", "value_error", "lazy", "explicit_source"]
PLACEMENTS = ["registered", "dynamic", "annotated", "default_conversion", "field"]


def scenarios():
    for graph in GRAPHS:
        for placement in PLACEMENTS:
            for source in DATA:
                yield graph, placement, source


def work(tier, widx, nworkers, st, extra):
    if widx == 0:
        try:
            special_worlds(st)
        except Exception:
            import traceback

            st.violation({"signature": {"kind": "harness_error"}, "harness_error": True, "what": "special worlds", "traceback": traceback.format_exc()[-2000:]})
    for i, (graph, placement, source) in enumerate(scenarios()):
        if i % nworkers != widx:
            continue
        try:
            scenario(st, graph, placement, source)
        except Exception:
            import traceback

            st.violation({"signature": {"kind": "harness_error"}, "harness_error": True, "what": f"scenario {graph} {placement} {source}", "traceback": traceback.format_exc()[-2000:]})
    st.sample({"graph": "single", "placement": "dynamic", "source": "int", "context": "List", "datum": [1, 1]})


def main(tier: str, t0: float) -> int:
    st = infra.run_pool("vf.checks.c12", tier)
    return infra.finish(
        PROP,
        tier,
        st,
        t0,
        rule=RULE,
        coverage_extra={"exhaustive": True, "graphs": GRAPHS + ["two_deserializers(2 orders)", "chain", "generic", "inherited", "not_inherited", "annotations", "identity"], "placements": PLACEMENTS},
        assumptions=["the implementation on the source / target type is the reference (C01, C04 check it)", "converters are total and pure except the ValueError of the catch_value_error scenario"],
    )


def replay(path: str) -> int:
    v = json.load(open(path))
    st = infra.Stats()
    if "placement" in v:
        scenario(st, v["graph"], v["placement"], v["source"])
    else:
        special_worlds(st)
    hits = [x for x in st.violations if x.get("signature") == v.get("signature")]
    for x in hits[:3]:
        print(f"VIOLATION property=C12 replay={path}")
        print(" ", x["what"])
    return 1 if hits else 0
