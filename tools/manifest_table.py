CHECKS = [
    {
        "id": "C01", "engine": "E1", "design_ref": "DESIGN.md §5 C01",
        "technique": "bounded exhaustive enumeration of (type term, options, datum) against an independent reference model",
        "text": "Every type of the bounded grammar (all ctor/shape pairs, nesting 2) x every datum at <=2 deviations from a valid skeleton x option vectors is executed on the real deserialize and compared (verdict and typed image with runtime classes) with an independent reference model of the documented data model; exhaustive within the stated bounds, nothing sampled.",
        "note": "Trusted: the reference model (vf/refmodel/deser.py, written from the docs, no code shared with apischema); cases the docs do not decide are excluded and counted. Bounds: nesting depth 2, <=2 deviations, atom pools listed in evidence.",
    },
]
_PENDING = "check not built yet in this round (planned, see DESIGN.md §5); not claimed until it runs green"
NOT_APPLICABLE = [{"property_id": f"C{i:02d}", "reason": _PENDING} for i in range(2, 21)]
