"""C16 — field order is a deterministic function of declaration and order() specs.
E1: every class with <=n elements (fields and serialized methods) x every ordering specification,
four views (serialize, serialization schema, deserialization schema, GraphQL type) against a
reference ordering function."""
from __future__ import annotations

import itertools
import json
from typing import Any, Dict, Iterator, List, Optional, Sequence, Tuple

from .. import infra
from .. import world  # noqa
from ..realize import PRELUDE, exec_source

import apischema
from apischema import serialize
from apischema.json_schema import deserialization_schema, serialization_schema

PROP = "C16"
RULE = (
    "every class with n<=4 (quick) / n<=5 (thorough) elements — k dataclass fields followed by n-k serialized methods, "
    "for every split with at most 2 methods (for n<=3 also with the methods given an alias different from their name) — and EVERY ordering specification: per element one of {none, order(-1), "
    "order(1), order(999), after=x, before=x for every other element x}, restricted to well-founded specifications "
    "(acyclic anchor chains; cyclic ones are contradictory input, counted and excluded); plus class-level order([...]) "
    "for every permutation and order({...}) mapping overrides, and inheritance (spec in base / override in derived) for "
    "n<=3; plus classes of 3 fields where the anchor of an after / before is absent from some views (skip(serialization=True), "
    "skip(deserialization=True), init=False, InitVar); plus order([...]) registered (then replaced) on a class every view of which is already warm. Five views must be the same permutation (projected on the elements a view contains): keys of serialize() (also under PassThroughOptions(dataclasses=True), a passed-through instance being emitted in declaration order), "
    "properties of serialization_schema and deserialization_schema, field order of the GraphQL object type; and equal to "
    "the reference order. distinct_nontrivial counts distinct (n, split, spec) classes."
)

VALUES = [None, -1, 1, 999]


def ref_order(names: List[str], spec: Dict[str, Any]) -> List[str]:
    """reference ordering from the property statement: ascending order value (0 by default),
    declaration order within a value, after/before elements attached directly next to their
    anchor together with their own attached elements"""
    groups: Dict[int, List[str]] = {}
    after: Dict[str, List[str]] = {}
    before: Dict[str, List[str]] = {}
    for n in names:
        s = spec.get(n)
        if s is None:
            groups.setdefault(0, []).append(n)
        elif s[0] == "v":
            groups.setdefault(s[1], []).append(n)
        elif s[0] == "after":
            after.setdefault(s[1], []).append(n)
        else:
            before.setdefault(s[1], []).append(n)
    out: List[str] = []

    def emit(n):
        for b in before.get(n, []):
            emit(b)
        out.append(n)
        for a in after.get(n, []):
            emit(a)

    for v in sorted(groups):
        for n in groups[v]:
            emit(n)
    return out


def well_founded(names: List[str], spec: Dict[str, Any]) -> bool:
    for n in names:
        seen = set()
        cur = n
        while True:
            s = spec.get(cur)
            if s is None or s[0] == "v":
                break
            if cur in seen:
                return False
            seen.add(cur)
            cur = s[1]
            if cur not in names:
                return False
    return True


def spec_src(s) -> Optional[str]:
    if s is None:
        return None
    if s[0] == "v":
        return f"order({s[1]})"
    return f"order({s[0]}={s[1]!r})"


def class_src(cname: str, nf: int, nm: int, spec: Dict[str, Any], base: Optional[str] = None, class_order: Optional[str] = None, own_fields: Optional[List[str]] = None, alias_methods: bool = False) -> str:
    lines = []
    if class_order:
        lines.append(f"@{class_order}")
    lines.append("@dataclass")
    lines.append(f"class {cname}" + (f"({base})" if base else "") + ":")
    names = [f"f{i}" for i in range(nf)]
    body = False
    for n in names:
        if own_fields is not None and n not in own_fields:
            continue
        body = True
        s = spec_src(spec.get(n))
        if s:
            lines.append(f"    {n}: int = field(default=0, metadata={s})")
        else:
            lines.append(f"    {n}: int = 0")
    for j in range(nm):
        n = f"m{j}"
        if own_fields is not None and n not in own_fields:
            continue
        body = True
        s = spec_src(spec.get(n))
        if alias_methods:  # external name a_m<j>: order specs still designate the method by its Python name
            lines.append(f"    @serialized({'a_' + n!r}, order={s})" if s else f"    @serialized({'a_' + n!r})")
        else:
            lines.append(f"    @serialized(order={s})" if s else "    @serialized")
        lines.append(f"    def {n}(self) -> int:")
        lines.append(f"        return {j + 10}")
    if not body:
        lines.append("    pass")
    return "\n".join(lines)


def element_specs(names: List[str], n: str) -> List[Any]:
    out: List[Any] = [None] + [("v", v) for v in VALUES[1:]]
    for x in names:
        if x != n:
            out.append(("after", x))
            out.append(("before", x))
    return out


def cases(tier: str) -> Iterator[Tuple[int, int, Dict[str, Any]]]:
    maxn = 4 if tier == "quick" else 5
    for n in range(1, maxn + 1):
        for nm in range(0, min(2, n - 1) + 1):
            nf = n - nm
            if n == 5 and nm == 2:
                continue
            names = [f"f{i}" for i in range(nf)] + [f"m{j}" for j in range(nm)]
            for combo in itertools.product(*[element_specs(names, x) for x in names]):
                yield nf, nm, dict(zip(names, combo))


def views(mod, cname: str, gql_types) -> Dict[str, List[str]]:
    cls = getattr(mod, cname)
    out = {}
    out["serialize"] = list(serialize(cls, cls()))
    # the same keys when dataclasses may be passed through to a JSON library emitting them natively (declaration order)
    import dataclasses as _dc

    from apischema import PassThroughOptions

    pt = serialize(cls, cls(), pass_through=PassThroughOptions(dataclasses=True))
    out["serialize_pass_through"] = [f.name for f in _dc.fields(pt)] if _dc.is_dataclass(pt) else list(pt)
    out["serialization_schema"] = list(serialization_schema(cls).get("properties", {}))
    out["deserialization_schema"] = list(deserialization_schema(cls).get("properties", {}))
    if gql_types is not None and cname in gql_types:
        out["graphql"] = list(gql_types[cname].fields)
    if not any(n.startswith(("m", "a_m")) for n in out["serialize"]) and set(out["serialization_schema"]) == set(out["deserialization_schema"]):
        # definitions shared by both sides (same element set): one more spelling of the same properties
        from apischema.json_schema import definitions_schema

        d = definitions_schema(deserialization=[cls], serialization=[cls], all_refs=True)
        if cname in d:
            out["definitions_both"] = list(d[cname].get("properties", {}))
    # aliased serialized methods (a_m0, GraphQL aM0) are reported under their Python name
    ren = {"a_m0": "m0", "a_m1": "m1", "aM0": "m0", "aM1": "m1"}
    return {k: [ren.get(x, x) for x in v] for k, v in out.items()}


def check_class(mod, cname, names, spec, st, gql_types, extra_what=""):
    fields = [n for n in names if n.startswith("f")]
    exp = ref_order(names, spec)
    exp_fields = [n for n in exp if n in fields]
    try:
        v = views(mod, cname, gql_types)
    except Exception as e:
        st.violation({"signature": {"kind": "exception", "exc": type(e).__name__}, "what": f"{cname} {spec}: {e!r}"[:300], "spec": repr(spec), "n": [len(fields), len(names) - len(fields)]})
        return
    st.case(len(fields), len(names) - len(fields), tuple(sorted((k, repr(x)) for k, x in spec.items())), extra_what)
    expected = {"serialize": exp, "serialize_pass_through": exp, "serialization_schema": exp, "deserialization_schema": exp_fields, "graphql": exp_fields, "definitions_both": exp_fields}
    for view, got in v.items():
        if got != expected[view]:
            lost = sorted(set(expected[view]) - set(got))
            dup = len(got) != len(set(got))
            relative_to_method = any(s is not None and s[0] in ("after", "before") and s[1].startswith("m") for n, s in spec.items() if n.startswith("f"))
            st.violation(
                {
                    "signature": {"kind": "order", "view": view, "lost": bool(lost), "duplicated": dup, "field_anchored_on_method": relative_to_method and view in ("deserialization_schema", "graphql")},
                    "what": f"{view} order {got} != expected {expected[view]} for spec {spec} {extra_what}"[:400],
                    "spec": repr(spec),
                    "n": [len(fields), len(names) - len(fields)],
                    "extra": extra_what,
                }
            )


BATCH = 150


def gql_types_of(mod, cnames: List[str]):
    try:
        from apischema.graphql import graphql_schema

        src_funcs = []
        ns: Dict[str, Any] = {}
        fns = []
        for c in cnames:
            cls = getattr(mod, c)

            def make(cls=cls, c=c):
                def q() -> cls:  # type: ignore
                    return cls()

                q.__name__ = "q_" + c
                q.__annotations__ = {"return": cls}
                return q

            fns.append(make())
        schema = graphql_schema(query=fns)
        return schema.type_map
    except Exception as e:
        return e


def run_batch(batch: List[Tuple[int, int, Dict[str, Any]]], st: infra.Stats):
    src = []
    metas = []
    for k, (nf, nm, spec) in enumerate(batch):
        names = [f"f{i}" for i in range(nf)] + [f"m{j}" for j in range(nm)]
        if not well_founded(names, spec):
            st.count("cyclic_spec_excluded")
            continue
        cname = f"C{k}"
        src.append(class_src(cname, nf, nm, spec))
        metas.append((cname, names, spec))
        if nm and nf + nm <= 3:
            src.append(class_src(f"A{k}", nf, nm, spec, alias_methods=True))
            metas.append((f"A{k}", names, spec))
    if not metas:
        return
    mod = exec_source(PRELUDE + "\n".join(src))
    gql = gql_types_of(mod, [m[0] for m in metas])
    if isinstance(gql, Exception):
        # find the culprit class by class
        gql_map: Dict[str, Any] = {}
        for cname, names, spec in metas:
            g = gql_types_of(mod, [cname])
            if isinstance(g, Exception):
                st.violation({"signature": {"kind": "graphql_exception", "exc": type(g).__name__}, "what": f"graphql_schema failed for spec {spec}: {g!r}"[:300], "spec": repr(spec), "n": [sum(1 for n in names if n[0] == 'f'), sum(1 for n in names if n[0] == 'm')]})
            else:
                gql_map[cname] = g[cname]
        gql = gql_map
    for cname, names, spec in metas:
        check_class(mod, cname, names, spec, st, gql)
    import sys

    sys.modules.pop(mod.__name__, None)
    apischema.cache.reset()


def run_class_level(st: infra.Stats):
    """class-level order([...]) sequences, order({...}) mapping overrides, inheritance"""
    k = 0
    names = ["f0", "f1", "f2"]
    src, metas = [], []
    for perm in itertools.permutations(names):
        for field_spec in (None, ("v", 1), ("after", "f2")):
            spec0 = {"f0": field_spec} if field_spec and not (field_spec[0] == "after" and False) else {}
            # sequence override: each element but the first is `after` its predecessor; the first keeps its own spec
            eff = dict(spec0)
            for prev, cur in zip(perm, perm[1:]):
                eff[cur] = ("after", prev)
            if not well_founded(names, eff):
                continue
            k += 1
            cname = f"S{k}"
            src.append(class_src(cname, 3, 0, spec0, class_order=f"order({list(perm)!r})"))
            metas.append((cname, names, eff, f"class order({list(perm)})"))
    for target in names:
        for ov in (("v", -1), ("v", 999), ("after", "f2"), ("before", "f0")):
            if ov[0] in ("after", "before") and ov[1] == target:
                continue
            spec0 = {"f1": ("v", 1)}
            eff = dict(spec0)
            eff[target] = ov
            if not well_founded(names, eff):
                continue
            k += 1
            cname = f"S{k}"
            src.append(class_src(cname, 3, 0, spec0, class_order="order({%r: %s})" % (target, spec_src(ov))))
            metas.append((cname, names, eff, f"class order({{{target}: {ov}}})"))
            # inheritance: override declared on the base, fields split between base and derived
            k += 1
            b, d = f"B{k}", f"S{k}"
            src.append(class_src(b, 3, 0, spec0, class_order="order({%r: %s})" % (target, spec_src(ov)), own_fields=["f0", "f1"]))
            src.append(class_src(d, 3, 0, spec0, base=b, own_fields=["f2"]))
            metas.append((d, names, eff, f"override {target}:{ov} on base, f2 in derived"))
            # override on the derived class wins over the base's
            k += 1
            b, d = f"B{k}", f"S{k}"
            src.append(class_src(b, 3, 0, spec0, class_order="order({%r: order(5)})" % target, own_fields=["f0", "f1", "f2"]))
            src.append(class_src(d, 3, 0, spec0, base=b, class_order="order({%r: %s})" % (target, spec_src(ov)), own_fields=[]))
            metas.append((d, names, eff, f"derived override {target}:{ov} over base order(5)"))
    # class-level ordering that involves serialized methods (in some views the method is not an element
    # of the view: its class-level position must still drive the fields attached to it)
    names4 = ["f0", "f1", "f2", "m0"]
    for perm in itertools.permutations(names4):
        eff = {}
        for prev, cur in zip(perm, perm[1:]):
            eff[cur] = ("after", prev)
        k += 1
        cname = f"S{k}"
        src.append(class_src(cname, 3, 1, {}, class_order=f"order({list(perm)!r})"))
        metas.append((cname, names4, eff, f"class order({list(perm)}) with a method"))
    for target, ov in itertools.product(names4, (("v", -1), ("v", 999), ("after", "f1"), ("before", "f1"), ("after", "m0"), ("before", "m0"))):
        if ov[0] in ("after", "before") and ov[1] == target:
            continue
        for field_spec in ({}, {"f2": ("after", "m0")}, {"f0": ("before", "m0")}):
            eff = dict(field_spec)
            eff[target] = ov
            if not well_founded(names4, eff):
                continue
            k += 1
            cname = f"S{k}"
            src.append(class_src(cname, 3, 1, field_spec, class_order="order({%r: %s})" % (target, spec_src(ov))))
            metas.append((cname, names4, eff, f"class order({{{target}: {ov}}}) fields {field_spec}"))
    # serialized methods declared on a base class and on a derived class: declaration order = base first
    names_h = ["f0", "f1", "m0", "m1"]
    for spec in ({}, {"m1": ("v", -1)}, {"m0": ("v", 999)}, {"f1": ("after", "m0")}, {"m1": ("before", "m0")}, {"m0": ("after", "f0")}, {"f0": ("after", "m1")}):
        if not well_founded(names_h, spec):
            continue
        for split in ((["f0", "m0"], ["f1", "m1"]), (["f0", "f1", "m0"], ["m1"]), (["m0"], ["f0", "f1", "m1"])):
            k += 1
            b, d = f"B{k}", f"S{k}"
            src.append(class_src(b, 2, 2, spec, own_fields=split[0]))
            src.append(class_src(d, 2, 2, spec, base=b, own_fields=split[1]))
            # fields of the base come first in the dataclass, whatever their index
            decl = [n for n in split[0] if n.startswith("f")] + [n for n in split[1] if n.startswith("f")] + [n for n in split[0] if n.startswith("m")] + [n for n in split[1] if n.startswith("m")]
            metas.append((d, decl, spec, f"methods split between base {split[0]} and derived {split[1]}"))
    mod = exec_source(PRELUDE + "\n".join(src))
    gql = gql_types_of(mod, [m[0] for m in metas])
    if isinstance(gql, Exception):
        gql = None
    for cname, names_, eff, what in metas:
        check_class(mod, cname, names_, eff, st, gql, what)
    st.count("class_level_cases", len(metas))


def run_resolver_serialized(st: infra.Stats):
    """resolver(serialized=True, order=...): the method is a GraphQL field *and* a serialized method, at one position"""
    src = ["from apischema.graphql import resolver"]
    metas = []
    k = 0
    for sp, aliased in itertools.product((None, ("v", -1), ("v", 999), ("before", "f0"), ("after", "f0"), ("before", "f1")), (False, True)):
        for fspec in ({}, {"f1": ("v", -1)}, {"f0": ("after", "m0")}, {"f1": ("before", "m0")}):
            spec = dict(fspec)
            if sp is not None:
                spec["m0"] = sp
            if not well_founded(["f0", "f1", "m0"], spec):
                continue
            k += 1
            cname = f"RS{k}"
            o = spec_src(spec.get("m0"))
            lines = ["@dataclass", f"class {cname}:"]
            for n in ("f0", "f1"):
                fo = spec_src(spec.get(n))
                lines.append(f"    {n}: int = field(default=0, metadata={fo})" if fo else f"    {n}: int = 0")
            # aliased: the method is exposed under another name than the one orderings refer to
            al = "'a_m0', " if aliased else ""
            lines.append(f"    @resolver({al}serialized=True, order={o})" if o else f"    @resolver({al}serialized=True)")
            lines.append("    def m0(self) -> int:")
            lines.append("        return 1")
            src.append("\n".join(lines))
            metas.append((cname, spec))
    mod = exec_source(PRELUDE + "\n".join(src))
    gql = gql_types_of(mod, [c for c, _ in metas])
    for cname, spec in metas:
        cls = getattr(mod, cname)
        exp = ref_order(["f0", "f1", "m0"], spec)
        st.case("resolver_serialized", tuple(sorted((a, repr(b)) for a, b in spec.items())))
        got = {"serialize": list(serialize(cls, cls())), "serialization_schema": list(serialization_schema(cls).get("properties", {}))}
        if not isinstance(gql, Exception) and cname in gql:
            got["graphql"] = list(gql[cname].fields)
        ren = {"a_m0": "m0", "aM0": "m0"}
        for view, g in got.items():
            g = [ren.get(x, x) for x in g]
            if g != exp:
                st.violation({"signature": {"kind": "order", "view": view, "lost": bool(set(exp) - set(g)), "duplicated": False, "world": "resolver_serialized"}, "what": f"{view} order {g} != expected {exp} for spec {spec} (m0 declared with resolver(serialized=True))"[:400], "spec": repr(spec), "n": [2, 1], "extra": "resolver_serialized"})
    import sys

    sys.modules.pop(mod.__name__, None)
    apischema.cache.reset()


def run_absent_anchors(st: infra.Stats):
    """a field ordered after / before a field that a view does not contain (skipped in one direction,
    init=False) keeps its place relative to the others in that view, and is never lost"""
    kinds = {
        "skip_ser": ("field(default=0, metadata=skip(serialization=True){md})", {"serialize", "serialization_schema"}),
        "skip_deser": ("field(default=0, metadata=skip(deserialization=True){md})", {"deserialization_schema"}),
        "init_false": ("field(default=0, init=False{mdkw})", {"deserialization_schema"}),
        # an InitVar declared anywhere among the fields (dataclasses keeps it apart from the regular fields)
        "initvar": ("field(default=0{mdkw})", {"serialize", "serialization_schema"}),
    }
    names = ["f0", "f1", "f2"]
    src, metas = [], []
    k = 0
    for kind, (decl, absent_in) in kinds.items():
        for anchor in names:
            for attached in names:
                if attached == anchor:
                    continue
                for rel in ("after", "before"):
                    for third_spec in (None, ("v", -1), ("v", 999), (rel, attached)):
                        third = next(n for n in names if n not in (anchor, attached))
                        spec = {attached: (rel, anchor)}
                        if third_spec is not None:
                            spec[third] = third_spec
                        for anchor_spec in (None, ("v", 1)):
                            sp = dict(spec)
                            if anchor_spec:
                                sp[anchor] = anchor_spec
                            if not well_founded(names, sp):
                                continue
                            k += 1
                            cname = f"X{k}"
                            lines = ["@dataclass", f"class {cname}:"]
                            for n in names:
                                o = spec_src(sp.get(n))
                                if n == anchor:
                                    lines.append(f"    {n}: {'InitVar[int]' if kind == 'initvar' else 'int'} = " + decl.format(md=(" | " + o) if o else "", mdkw=(", metadata=" + o) if o else ""))
                                elif o:
                                    lines.append(f"    {n}: int = field(default=0, metadata={o})")
                                else:
                                    lines.append(f"    {n}: int = 0")
                            src.append("\n".join(lines))
                            metas.append((cname, sp, anchor, absent_in, kind))
    mod = exec_source(PRELUDE + "\n".join(src))
    for cname, sp, anchor, absent_in, kind in metas:
        cls = getattr(mod, cname)
        full = ref_order(names, sp)
        st.case("absent_anchor", kind, tuple(sorted((a, repr(b)) for a, b in sp.items())))
        try:
            got = {
                "serialize": list(serialize(cls, cls())),
                "serialization_schema": list(serialization_schema(cls).get("properties", {})),
                "deserialization_schema": list(deserialization_schema(cls).get("properties", {})),
            }
        except Exception as e:
            st.violation({"signature": {"kind": "exception", "exc": type(e).__name__, "world": "absent_anchor"}, "what": f"{kind} anchor {anchor} spec {sp}: {e!r}"[:300], "spec": repr(sp), "n": [3, 0]})
            continue
        for view, g in got.items():
            exp = [n for n in full if not (n == anchor and view in absent_in)]
            if g != exp:
                st.violation({"signature": {"kind": "order", "view": view, "lost": bool(set(exp) - set(g)), "duplicated": len(g) != len(set(g)), "absent_anchor": kind}, "what": f"{view} order {g} != expected {exp} for spec {sp} with {anchor} declared {kind}"[:400], "spec": repr(sp), "n": [3, 0], "extra": f"absent anchor {anchor}:{kind}"})
    st.count("absent_anchor_cases", len(metas))
    import sys

    sys.modules.pop(mod.__name__, None)
    apischema.cache.reset()


def run_late_class_order(st: infra.Stats):
    """a class-level order([...]) registered AFTER the class has been used once (every view warm): every view follows the new
    order — for every permutation of 3 fields, and for a second registration replacing the first"""
    from apischema import order

    names = ["f0", "f1", "f2"]
    perms = list(itertools.permutations(names))
    src = "\n".join(f"@dataclass\nclass LO{k}:\n    f0: int = 0\n    f1: int = 0\n    f2: int = 0" for k in range(len(perms)))
    mod = exec_source(PRELUDE + src)
    for k, perm in enumerate(perms):
        cname = f"LO{k}"
        cls = getattr(mod, cname)
        gql = gql_types_of(mod, [cname])
        first = views(mod, cname, gql)
        for step, p in (("first registration", perm), ("second registration", perm[::-1])):
            order(list(p))(cls)
            st.case("late_class_order", perm, step)
            got = views(mod, cname, gql_types_of(mod, [cname]))
            for view, g in got.items():
                if g != list(p):
                    st.violation({"signature": {"kind": "order", "view": view, "lost": False, "duplicated": False, "late_registration": step}, "what": f"{view} order {g} != {list(p)} after order({list(p)}) was registered on a class already used (views before: {first.get(view)})"[:400], "spec": repr(p), "n": [3, 0]})
    import sys

    sys.modules.pop(mod.__name__, None)
    apischema.cache.reset()


def work(tier, widx, nworkers, st, extra):
    if widx == (3 % nworkers):
        try:
            run_late_class_order(st)
        except Exception:
            import traceback

            st.violation({"signature": {"kind": "harness_error"}, "harness_error": True, "what": "late class order", "traceback": traceback.format_exc()[-2000:]})
    if widx == 0:
        run_class_level(st)
    if widx == (1 % nworkers):
        run_absent_anchors(st)
    if widx == (2 % nworkers):
        run_resolver_serialized(st)
    batch = []
    for i, c in enumerate(cases(tier)):
        if (i // BATCH) % nworkers != widx:
            continue
        batch.append(c)
        if len(batch) == BATCH:
            run_batch(batch, st)
            batch = []
    if batch:
        run_batch(batch, st)
    st.sample({"n_fields": 2, "n_methods": 1, "spec": {"f0": ["after", "m0"], "f1": None, "m0": ["v", -1]}})


def main(tier: str, t0: float) -> int:
    st = infra.run_pool("vf.checks.c16", tier)
    return infra.finish(
        PROP,
        tier,
        st,
        t0,
        rule=RULE,
        coverage_extra={"exhaustive": True, "bounds": {"max_elements": 4 if tier == "quick" else 5, "order_values": VALUES}},
        assumptions=["cyclic after/before specifications are contradictory input (the docs define nothing) and are excluded, counted in counters.cyclic_spec_excluded"],
    )


def replay(path: str) -> int:
    v = json.load(open(path))
    st = infra.Stats()
    if v.get("extra"):
        run_class_level(st)
    else:
        nf, nm = v["n"]
        run_batch([(nf, nm, eval(v["spec"]))], st)
    hits = [x for x in st.violations if x.get("signature") == v.get("signature")]
    for x in hits[:3]:
        print(f"VIOLATION property=C16 replay={path}")
        print(" ", x["what"])
    return 1 if hits else 0
