"""Reference semantics of serialization over TypeSpec + model values (docs/data_model.md,
de_serialization.md): the JSON image of a value and the field omission rule as ONE formula."""
from __future__ import annotations

from dataclasses import dataclass, field
from typing import Any, Dict, List, Optional

from ..tast import AnyT, Coll, Con, EnumT, F, Gen, Lit, MapT, NewT, Obj, Prim, Ref, Std, T, Tup, TVar, Uni, Unsup
from .deser import ALIASERS, CLASS_ALIASERS, MISSING, UNDEF, Ctx, Unspecified, VAlts, VEnum, VObj, all_fields, field_ext_name, flat_alts, resolve


class SetImg:
    """image of a set: a list compared modulo order"""

    def __init__(self, items):
        self.items = list(items)

    def __repr__(self):
        return f"SetImg({self.items})"


@dataclass
class SOpts:
    exclude_none: bool = False
    exclude_defaults: bool = False
    exclude_unset: bool = True
    additional_properties: bool = False
    aliaser: str = "id"
    env: Dict[str, Obj] = field(default_factory=dict)
    tvars: Dict[str, T] = field(default_factory=dict)
    enum_values: Dict[str, Dict[str, Any]] = field(default_factory=dict)

    def ctx(self) -> Ctx:
        return Ctx(aliaser=self.aliaser, env=self.env, tvars=self.tvars, additional_properties=self.additional_properties)


def ser_fields(o: Obj, ctx: Ctx) -> List[F]:
    return [f for f in all_fields(o, ctx) if not f.initvar and f.skip not in ("all", "ser")]


def has_alt(t: T, kind: str, ctx: Ctx) -> bool:
    t = resolve(t, ctx)
    if isinstance(t, Con):
        return has_alt(t.base, kind, ctx)
    if isinstance(t, Uni):
        return any(isinstance(a, Prim) and a.kind == kind for a in flat_alts(t, ctx))
    return isinstance(t, Prim) and t.kind == kind


def vmatches(t: T, v: Any, ctx: Ctx) -> bool:
    """does the runtime class of the (model) value match the alternative"""
    t = resolve(t, ctx)
    if isinstance(v, VAlts):
        v = v.first
    if isinstance(t, Unsup):
        return False
    if isinstance(t, (NewT, Con)):
        return vmatches(t.base, v, ctx)
    if isinstance(t, Prim):
        if t.kind == "undefined":
            return v is UNDEF
        if t.kind == "none":
            return v is None
        if t.kind == "bool":
            return isinstance(v, bool)
        if t.kind == "int":
            return isinstance(v, int)  # bool is an int instance
        if t.kind == "float":
            return isinstance(v, float)
        if t.kind == "str":
            return isinstance(v, str)
    if isinstance(t, AnyT):
        return True
    if isinstance(t, Lit):
        return isinstance(v, tuple({type(x) for x in t.values}))
    if isinstance(t, EnumT):
        return isinstance(v, VEnum) and v.enum == t.name
    if isinstance(t, Uni):
        return any(vmatches(a, v, ctx) for a in t.alts)
    if isinstance(t, Coll):
        if t.kind in ("list", "blist"):
            return isinstance(v, list)
        if t.kind in ("set", "bset"):
            return isinstance(v, set)
        if t.kind == "frozenset":
            return isinstance(v, frozenset)
        if t.kind == "vartuple":
            return isinstance(v, tuple)
        if isinstance(v, str) and t.kind in ("seq", "collection"):
            raise Unspecified("a str is a Python Sequence: class dispatch of a union undecided by the docs")
        if t.kind == "seq":
            return isinstance(v, (list, tuple))
        if t.kind == "absset":
            return isinstance(v, (set, frozenset))
        return isinstance(v, (list, tuple, set, frozenset))
    if isinstance(t, Tup):
        return isinstance(v, tuple) and len(v) == len(t.elts)
    if isinstance(t, MapT):
        return isinstance(v, dict)
    if isinstance(t, Gen):
        return isinstance(v, VObj) and v.cls == t.obj.name
    if isinstance(t, Obj):
        if t.kind == "typeddict":
            return isinstance(v, dict)
        return isinstance(v, VObj) and v.cls == t.name
    return False


def image(t: T, v: Any, o: SOpts) -> Any:
    ctx = o.ctx()
    return _img(t, v, o, ctx)


def _any_img(v: Any, o: SOpts, ctx: Ctx) -> Any:
    if isinstance(v, VAlts):
        v = v.first
    if v is None or isinstance(v, (bool, int, float, str)):
        return v
    if isinstance(v, (list, tuple)):
        return [_any_img(x, o, ctx) for x in v]
    if isinstance(v, (set, frozenset)):
        return SetImg(_any_img(x, o, ctx) for x in v)
    if isinstance(v, dict):
        return {_any_img(k, o, ctx): _any_img(x, o, ctx) for k, x in v.items()}
    if isinstance(v, VEnum):
        return o.enum_values[v.enum][v.member]
    if isinstance(v, VObj):
        return _img(ctx.env[v.cls], v, o, ctx)
    raise Unspecified(f"Any image of {v!r}")


def _img(t: T, v: Any, o: SOpts, ctx: Ctx) -> Any:
    t = resolve(t, ctx)
    if isinstance(v, VAlts):
        v = v.first
    if isinstance(t, (NewT, Con)):
        return _img(t.base, v, o, ctx)
    if isinstance(t, Prim):
        return v
    if isinstance(t, AnyT):
        return _any_img(v, o, ctx)
    if isinstance(t, Lit):
        return v
    if isinstance(t, EnumT):
        return dict(t.members)[v.member]
    if isinstance(t, Uni):
        for a in flat_alts(t, ctx):
            if vmatches(a, v, ctx):
                return _img(a, v, o, ctx)
        raise Unspecified("value matches no alternative")
    if isinstance(t, Coll):
        items = [_img(t.elt, x, o, ctx) for x in v]
        return SetImg(items) if isinstance(v, (set, frozenset)) else items
    if isinstance(t, Tup):
        return [_img(e, x, o, ctx) for e, x in zip(t.elts, v)]
    if isinstance(t, MapT):
        return {_img(t.k, k, o, ctx): _img(t.v, x, o, ctx) for k, x in v.items()}
    if isinstance(t, Gen):
        sub = dict(ctx.tvars)
        sub.update(zip(t.obj.generic_params, t.args))
        c2 = Ctx(**{**ctx.__dict__, "tvars": sub})
        return _obj_img(t.obj, v, o, c2)
    if isinstance(t, Obj):
        return _obj_img(t, v, o, ctx)
    raise Unspecified(f"no image for {t}")


def tracked_set(ob: Obj, v: VObj, ctx: Ctx) -> Optional[set]:
    if not ob.fields_set:
        return None
    s = set(v.present or ())
    for f in all_fields(ob, ctx):
        if f.default_as_set or not f.init:
            s.add(f.name)
    return s


def omitted(ob: Obj, f: F, val: Any, o: SOpts, ctx: Ctx, tracked: Optional[set]) -> bool:
    """THE omission rule"""
    if isinstance(val, VAlts):  # a value that several alternatives of a union produce: the same value
        val = val.first
    dflt_is_undef = f.has_default and f.default_value is UNDEF
    if val is UNDEF and (has_alt(f.type, "undefined", ctx) or dflt_is_undef):
        return True
    if f.ser_if is not None and _ser_if(f, val):
        return True
    if val is None and ((o.exclude_none and has_alt(f.type, "none", ctx)) or f.none_as_undefined):
        return True
    if f.optional and (f.ser_default or o.exclude_defaults) and _eq_default(val, f):
        return True
    if o.exclude_unset and tracked is not None and f.name not in tracked:
        return True
    return False


def _eq_default(val, f: F) -> bool:
    d = f.default_value
    if isinstance(d, VAlts):
        d = d.first
    if d is UNDEF or val is UNDEF:
        return d is val
    try:
        return bool(val == d)
    except Exception:
        return False


def _ser_if(f: F, val) -> bool:
    # the grammar only uses `lambda v: v == 0` style predicates, recorded as python source
    return bool(eval(f.ser_if)(val))


def _obj_img(ob: Obj, v: Any, o: SOpts, ctx: Ctx) -> Any:
    out: Dict[str, Any] = {}
    if ob.kind == "typeddict":
        names = {f.name for f in all_fields(ob, ctx)}
        for f in ser_fields(ob, ctx):
            if f.name in v:
                val = v[f.name]
                if omitted(ob, f, val, o, ctx, None):
                    continue
                out[field_ext_name(ob, f, ctx)] = _img(f.type, val, o, ctx)
        if o.additional_properties:
            for k, x in v.items():
                if k not in names and isinstance(k, str) and k not in out:
                    out[k] = _any_img(x, o, ctx)
        return out
    tracked = tracked_set(ob, v, ctx)
    for f in ser_fields(ob, ctx):
        val = v.fields.get(f.name, MISSING)
        if val is MISSING:
            raise Unspecified("field value unknown to the model")
        if isinstance(val, VAlts):
            val = val.first
        if omitted(ob, f, val, o, ctx, tracked):
            continue
        if f.flatten or f.props is not None:
            sub = _img(f.type, val, o, ctx)
            out.update(sub)
        else:
            ft = f.type
            out[field_ext_name(ob, f, ctx)] = _img(ft, val, o, ctx)
    for m in ob.methods:
        r = m.fn(v.fields)
        if r is UNDEF and m.undefined:
            continue
        if r is None and o.exclude_none and has_alt(m.ret, "none", ctx):
            continue
        name = m.alias or m.name
        out[ctx.alias(name)] = _img(m.ret, r, o, ctx)
    return out


def img_equal(a: Any, b: Any) -> Optional[str]:
    """compare a model image with real serialized data: exact JSON classes, sets modulo order.
    None if equal, else reason"""
    if isinstance(a, SetImg):
        if type(b) is not list:
            return f"expected list (from a set), got {type(b).__name__}"
        if len(b) != len(a.items):
            return f"length {len(b)} != {len(a.items)}"
        rest = list(b)
        for x in a.items:
            for i, y in enumerate(rest):
                if img_equal(x, y) is None:
                    del rest[i]
                    break
            else:
                return f"element {x!r} missing"
        return None
    if isinstance(a, list):
        if type(b) is not list:
            return f"expected list, got {type(b).__name__} {b!r}"
        if len(a) != len(b):
            return f"length {len(b)} != {len(a)}"
        for i, (x, y) in enumerate(zip(a, b)):
            r = img_equal(x, y)
            if r:
                return f"[{i}]: {r}"
        return None
    if isinstance(a, dict):
        if type(b) is not dict:
            return f"expected dict, got {type(b).__name__} {b!r}"
        if set(a) != set(b):
            return f"keys {sorted(map(str, b))} != {sorted(map(str, a))}"
        for k in a:
            if type(k) is not str:
                return f"non-string key {k!r}"
            r = img_equal(a[k], b[k])
            if r:
                return f"[{k!r}]: {r}"
        return None
    if a is None or isinstance(a, (bool, str)):
        return None if (type(a) is type(b) and a == b) else f"expected {a!r}, got {b!r}"
    if isinstance(a, (int, float)):
        if isinstance(b, bool) or type(b) not in (int, float):
            return f"expected number {a!r}, got {b!r}"
        return None if (a == b or (a != a and b != b)) and type(a) is type(b) else f"expected {a!r} ({type(a).__name__}), got {b!r} ({type(b).__name__})"
    return f"model image {a!r} is not JSON"
