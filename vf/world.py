"""Import apischema from the working tree under test and give checks a way to restore the
global configuration.  VERIF_REPO (default /repo) selects the tree; it is put first on sys.path
so that mutation campaigns can aim the very same checks at a scratch copy."""
from __future__ import annotations

import os
import sys

VERIF_DIR = os.path.dirname(os.path.dirname(os.path.abspath(__file__)))
REPO = os.environ.get("VERIF_REPO", "/repo")
_vendor = os.path.join(VERIF_DIR, "_vendor")

if REPO not in sys.path[:1]:
    sys.path.insert(0, REPO)
if os.path.isdir(_vendor) and _vendor not in sys.path:
    sys.path.insert(1, _vendor)

import apischema  # noqa: E402

assert os.path.realpath(os.path.dirname(os.path.dirname(apischema.__file__))) == os.path.realpath(REPO), (
    apischema.__file__,
    REPO,
)

from apischema import settings  # noqa: E402
from apischema import cache as _cache  # noqa: E402


def _snapshot(cls):
    return {k: v for k, v in vars(cls).items() if not k.startswith("__") and not isinstance(v, type)}


_SETTINGS_CLASSES = [settings, settings.base_schema, settings.errors, settings.deserialization, settings.serialization]
_SNAP = [(c, _snapshot(c)) for c in _SETTINGS_CLASSES]


def restore_settings():
    for cls, snap in _SNAP:
        for k, v in snap.items():
            if vars(cls).get(k, None) is not v:
                type.__setattr__(cls, k, v)
    _cache.reset()


def reset_caches():
    _cache.reset()


def repo_head() -> str:
    import subprocess

    try:
        return subprocess.run(["git", "-C", REPO, "rev-parse", "--short", "HEAD"], capture_output=True, text=True).stdout.strip()
    except Exception:
        return "?"
