"""C03 — deserialization is total, pure and crash-free on arbitrary input.
E1: types x wild data (non-JSON classes, NaN/inf, huge ints, odd keys, deep nesting) substituted
at every position of every skeleton x {coerce, additional_properties, fall_back_on_default, no_copy}."""
from __future__ import annotations

import copy
import hashlib
import itertools
import os
import json
import signal
import sys
import traceback
from typing import Any, Dict, List, Optional

from .. import infra
from ..data import U_POOL, get_at, positions, set_at, skeletons
from ..grammar import gen_types, well_formed
from ..refmodel.deser import Ctx
from ..tast import INT, STR, AnyT, Coll, F, MapT, Obj, Opt, Std, Tup, Uni, short, walk
from . import deser_common as dc

import apischema
from apischema import ValidationError

PROP = "C03"
RULE = (
    "types: grammar of C01 (quick: level<=1 plus the (outer,inner) pairs over one atom; thorough: all pairs over 4 atom "
    "classes) plus every standard-library type with a built-in conversion (uuid, date, datetime, time, Decimal, bytes, Path, "
    "ip addresses / interfaces / networks, re.Pattern, deque) bare and under list / set / Optional / dict value / dict key / "
    "union / tuple / dataclass field, plus sets of Any and of unions with unhashable images, plus discriminated unions "
    "(annotated: default / explicit / partial mapping, alternatives declaring the discriminator as a field; inherited "
    "@discriminator; TypedDict alternatives; TaggedUnion; under List / Optional / Dict) fed with every (body, discriminator "
    "value incl. unmapped / non-string / unhashable / absent, mapping class of the datum incl. defaultdict and dict "
    "subclasses with __missing__, OrderedDict, MappingProxyType, UserDict); data: every skeleton, and every skeleton with one position (root included) replaced by each of the wild atoms "
    "(NaN, +-inf, +-10**400, 2**63, str/int/float/dict/list subclasses, defaultdict / __missing__ dicts / OrderedDict / MappingProxyType / UserDict / UserList / "
    "UserString / deque / range / generator / Decimal / Fraction / UUID / date objects / Ellipsis / a type / a function, tuple, bytes, bytearray, set, frozenset, complex, "
    "object(), dicts with int/None/tuple/bytes/mixed keys, 60-deep list, unhashable values) and each JSON atom / coercible "
    "string; options: coerce x additional_properties x fall_back_on_default x no_copy (16 vectors at level<=1, 4 at level 2), plus settings.deserialization."
    "override_dataclass_constructors on three of these vectors (one at level 2). "
    "Oracle: returns or raises ValidationError whose .errors is computable and json-serialisable; input snapshot (structure, "
    "values, container identities) and class __dict__ digests unchanged. distinct_nontrivial counts distinct "
    "(ctor-pair shape, options, wild atom kind, position depth, outcome) tuples."
)


class StrSub(str):
    pass


class IntSub(int):
    pass


class FloatSub(float):
    pass


class DictSub(dict):
    pass


class ListSub(list):
    pass


class MissingDict(dict):
    """a dict subclass whose lookups never fail (like collections.defaultdict, without inserting)"""

    def __missing__(self, key):
        return "Cat"


def deep_list(n):
    x: Any = 0
    for _ in range(n):
        x = [x]
    return x


def deep_dict(n, key):
    x: Any = {}
    for _ in range(n):
        x = {key: x}
    return x


def wild_atoms() -> List[tuple]:
    """(kind, factory) — factories so that every use gets a fresh object"""
    return [
        ("nan", lambda: float("nan")),
        ("inf", lambda: float("inf")),
        ("-inf", lambda: float("-inf")),
        ("huge", lambda: 10 ** 400),
        ("-huge", lambda: -(10 ** 400)),
        ("2**63", lambda: 2 ** 63),
        ("huge5000", lambda: 10 ** 5000),  # beyond the int -> str conversion limit (4300 digits)
        ("b64bad", lambda: "a"),
        ("b64pad", lambda: "ab=c"),
        ("notadate", lambda: "2020-13-45"),
        ("re_hugerepeat", lambda: "a{99999999999999999999}"),  # a regular expression whose compilation overflows
        ("re_deepgroups", lambda: "(" * 5000 + ")" * 5000),  # ... or recurses too deep
        ("slashes", lambda: "1/2/3"),
        ("openparen", lambda: "("),
        ("nulchar", lambda: "a\x00b"),
        ("StrSub", lambda: StrSub("a")),
        ("IntSub", lambda: IntSub(1)),
        ("FloatSub", lambda: FloatSub(1.5)),
        ("DictSub", lambda: DictSub({"a": 0})),
        ("defaultdict", lambda: __import__("collections").defaultdict(str)),
        ("defaultdict_list", lambda: __import__("collections").defaultdict(list, {"a": 0})),
        ("defaultdict_tag", lambda: __import__("collections").defaultdict(lambda: "Cat", {"x": 0})),
        ("missingdict", lambda: MissingDict({"x": 0})),
        ("ordereddict", lambda: __import__("collections").OrderedDict(a=0)),
        ("mappingproxy", lambda: __import__("types").MappingProxyType({"a": 0})),
        ("userdict", lambda: __import__("collections").UserDict({"a": 0})),
        ("userlist", lambda: __import__("collections").UserList([0])),
        ("userstring", lambda: __import__("collections").UserString("a")),
        ("deque", lambda: __import__("collections").deque([0])),
        ("range", lambda: range(2)),
        ("generator", lambda: (x for x in [0])),
        ("Decimal", lambda: __import__("decimal").Decimal("1.5")),
        ("Fraction", lambda: __import__("fractions").Fraction(1, 2)),
        ("uuidobj", lambda: __import__("uuid").UUID(int=1)),
        ("dateobj", lambda: __import__("datetime").date(2020, 1, 2)),
        ("ellipsis", lambda: ...),
        ("notimplemented", lambda: NotImplemented),
        ("type", lambda: int),
        ("function", lambda: len),
        ("ListSub", lambda: ListSub([0])),
        ("tuple", lambda: (1, 2)),
        ("bytes", lambda: b"x"),
        ("bytearray", lambda: bytearray(b"x")),
        ("set", lambda: set()),
        ("frozenset", lambda: frozenset()),
        ("complex", lambda: 1 + 2j),
        ("object", lambda: object()),
        ("intkeys", lambda: {1: 2}),
        ("nonekey", lambda: {None: 1}),
        ("tuplekey", lambda: {(1, 2): 1}),
        ("byteskey", lambda: {b"k": 1}),
        ("mixedkeys", lambda: {"a": "b", 1: 2}),
        ("hugekey", lambda: {10 ** 5000: 1}),
        # several keys of mutually unorderable classes at one level (the error list sorts the children keys)
        ("oddkeys2", lambda: {None: 1, 2.5: 2}),
        ("oddkeys3", lambda: {b"k": 1, (1,): 2, None: 3, 1.5: 4}),
        ("oddkeys_mixed", lambda: {None: 1, "a": 2, 3: 4, 2.5: 5, (1, 2): 6}),
        ("mixedkeys_bad", lambda: {"a": [], 1: {}}),
        ("deeplist", lambda: deep_list(60)),
        ("listlist", lambda: [[]]),
        ("dictlist", lambda: [{}]),
        ("numstr", lambda: "1"),
        ("floatstr", lambda: "1.5"),
        ("expstr", lambda: "1e400"),
        ("boolword", lambda: "Yes"),
        ("maybe", lambda: "maybe"),
        ("spacestr", lambda: " 1 "),
        ("emptystr", lambda: ""),
        ("neg0", lambda: -0.0),
    ] + [("json:" + repr(a), (lambda a=a: copy.deepcopy(a))) for a in U_POOL]


WILD = wild_atoms()
OPTS16 = list(itertools.product((False, True), repeat=4))  # coerce, ap, fb, no_copy
OPTS4 = [(False, False, False, True), (True, True, False, False), (True, False, True, True), (False, True, True, False)]


def snap(d, depth=0):
    """structure + identities of containers (and of opaque leaves)"""
    if depth > 80:
        return ("deep",)
    if isinstance(d, dict):
        return ("D", id(d), type(d), tuple((k if isinstance(k, (str, int, float, bool, type(None), bytes, tuple)) else id(k), snap(v, depth + 1)) for k, v in d.items()))
    if isinstance(d, (list, tuple)):
        return ("L", id(d), type(d), tuple(snap(v, depth + 1) for v in d))
    if isinstance(d, (set, frozenset, bytearray)):
        return ("S", id(d), type(d), len(d))
    if isinstance(d, float) and d != d:
        return ("nan",)
    if isinstance(d, (str, int, float, bool, type(None), bytes, complex)):
        return (type(d), d)
    return ("O", id(d))


def class_digest(mod) -> str:
    h = hashlib.sha1()
    for name, obj in sorted(vars(mod).items()):
        if isinstance(obj, type) and getattr(obj, "__module__", None) == mod.__name__:
            for k, v in sorted(vars(obj).items(), key=lambda kv: kv[0]):
                if k in ("__dict__", "__weakref__"):
                    continue
                h.update(f"{name}.{k}={type(v).__name__}:{id(v) if callable(v) or isinstance(v, (property, type)) else repr(v)[:80]}".encode())
    return h.hexdigest()


def innermost_apischema_frame(exc: BaseException) -> str:
    tb = traceback.extract_tb(exc.__traceback__)
    for fr in reversed(tb):
        if "/apischema/" in fr.filename:
            return f"{fr.filename.split('/apischema/')[-1]}:{fr.name}"
    return "outside"


class Timeout(Exception):
    pass


def _alarm(signum, frame):
    raise Timeout()


def _safe_repr(d, wkind):
    try:
        return repr(d)[:300]
    except ValueError:  # int -> str digit limit (the harness must not lift it: it is part of the environment)
        return f"<datum containing {wkind}>"


def check_one(case, method, d, st, optkey, wkind, depth, sig_extra=None):
    before = snap(d)
    kind, out = dc.run_impl(method, d)
    outcome = kind
    base = {"label": case.label, "type": short(case.spec), "options": list(map(str, optkey)), "datum": (_safe_repr(d, wkind) if depth < 40 else f"<{wkind}>"), "wild": wkind}
    if kind == "exc":
        if isinstance(out, Timeout):
            raise out
        where = innermost_apischema_frame(out)
        st.violation(
            dict(
                base,
                signature=(
                    {"kind": "exception", "exc": type(out).__name__, "data": wkind}
                    if wkind.startswith("deep") and isinstance(out, RecursionError)
                    else dict({"kind": "exception", "exc": type(out).__name__, "where": where}, **(sig_extra or {}))
                ),
                what=f"deserialize raised {type(out).__name__}: {str(out)[:120]} (in {where})",
                source=case.realize().source,
            )
        )
    elif kind == "err":
        try:
            errs = out.errors
            json.dumps(errs)
        except Exception as e:
            where = innermost_apischema_frame(e)
            outcome = "err_not_serialisable"
            st.violation(
                dict(
                    base,
                    signature={"kind": "errors_not_computable", "exc": type(e).__name__, "where": where},
                    what=f"ValidationError.errors / json.dumps failed: {type(e).__name__}: {str(e)[:120]}",
                    source=case.realize().source,
                )
            )
    after = snap(d)
    if before != after:
        st.violation(
            dict(
                base,
                signature={"kind": "input_mutated", "shape": dc.shape_of(case.label)},
                what="deserialize modified its input",
                source=case.realize().source,
            )
        )
    st.case(dc.shape_of(case.label), optkey, wkind, min(depth, 3), outcome)
    st.count("outcome:" + outcome)


def run_type(i, label, spec, tier, st):
    env_ctx = Ctx(env=dc.build_env(spec))
    if well_formed(spec, env_ctx) and not label.startswith(("std", "anyset:", "con:")):
        return
    lvl = dc.level_of(label)
    case = dc.Case(label, spec)
    try:
        rz = case.realize()
    except Exception as e:
        st.violation({"label": label, "signature": {"kind": "realize_error"}, "what": repr(e)[:300], "harness_error": True, "traceback": repr(e)})
        return
    st.count("types")
    if i % 103 == 0:
        st.sample({"type": short(spec), "label": label})
    digest0 = class_digest(rz.module)
    ctx = case.ctx()
    sk = skeletons(spec, ctx)
    opts = [o + (False,) for o in (OPTS16 if lvl <= 1 else OPTS4)]
    # settings.deserialization.override_dataclass_constructors: objects built without calling __init__
    opts += [(False, False, False, True, True)] + ([(False, False, False, False, True), (True, True, False, True, True)] if lvl <= 1 else [])
    for co, ap, fb, nc, ov in opts:
        try:
            if ov:
                apischema.settings.deserialization.override_dataclass_constructors = True
            try:
                method = apischema.deserialization_method(rz.tp, coerce=co, additional_properties=ap, fall_back_on_default=fb, no_copy=nc)
            finally:
                if ov:
                    apischema.settings.deserialization.override_dataclass_constructors = False
        except Exception:
            st.count("compile_error(C01 reports it)")
            break
        optkey = (co, ap, fb, nc) + (("override_ctor",) if ov else ())
        seen = set()
        for s in sk:
            check_one(case, method, copy.deepcopy(s), st, optkey, "skeleton", 0)
            # every object of the skeleton with one key removed (missing properties next to valid ones)
            for path in positions(s):
                cur = get_at(s, path) if path else s
                if isinstance(cur, dict):
                    for k in cur:
                        m = {kk: vv for kk, vv in cur.items() if kk != k}
                        check_one(case, method, copy.deepcopy(set_at(s, path, m) if path else m), st, optkey, "dropkey", len(path))
            for path in positions(s):
                for wkind, mk in WILD:
                    key = (repr(path), wkind, len(path) and repr(s)[:40])
                    w = mk()
                    d = set_at(s, path, w) if path else w
                    if not path:
                        if wkind in seen:
                            continue
                        seen.add(wkind)
                    check_one(case, method, d, st, optkey, wkind, len(path))
    # recursive shapes: deep data
    if any(isinstance(x, Obj) and any("Ref(" in repr(f.type) for f in x.fields) for x in walk(spec)) and lvl <= 1:
        root = [x for x in walk(spec) if isinstance(x, Obj)][0]
        for f in root.fields:
            if "Ref(" not in repr(f.type) or not sk:
                continue
            base = next((s for s in sk if isinstance(s, dict)), None)
            if base is None:
                continue
            for depth in (50, 400, 900):
                d: Any = copy.deepcopy(base)
                d.pop(f.name, None)
                for _ in range(depth):
                    inner = d
                    d = copy.deepcopy(base)
                    tk = repr(f.type)
                    if tk.startswith("Coll"):
                        d[f.name] = [inner]
                    elif tk.startswith("MapT"):
                        d[f.name] = {"k": inner}
                    else:
                        d[f.name] = inner
                method = apischema.deserialization_method(rz.tp)
                try:
                    check_one(case, method, d, st, ("deep", depth), f"deep{depth}", depth)
                except RecursionError:
                    st.count("recursionerror_in_harness_snapshot")
    if class_digest(rz.module) != digest0:
        st.violation({"label": label, "signature": {"kind": "class_mutated", "shape": dc.shape_of(label)}, "what": "user classes were modified by deserialization", "source": rz.source})
    case.drop()
    dc.periodic_reset(i)


def extra_types():
    """standard-library types handled by apischema's own (not user-supplied) conversions, and sets of
    elements whose JSON image can be unhashable: outside the C01 grammar (no reference model for their
    values) but inside C03's "every supported type"; only the crash-freedom / purity oracles apply"""
    from ..data import STD_VALID

    out = []
    for k in STD_VALID:
        t = Std(k)
        out += [
            (f"std:{k}", t),
            (f"std_list[{k}]", Coll("list", t)),
            *([(f"std_set[{k}]", Coll("set", t))] if k != "deque_int" else []),  # a deque is not hashable
            (f"std_opt[{k}]", Opt(t)),
            (f"std_dictval[{k}]", MapT("dict", STR, t)),
            (f"std_union_int[{k}]", Uni((INT, t))),
            (f"std_union_rev[{k}]", Uni((t, INT))),
            (f"std_tuple[{k}]", Tup((t, INT))),
            (f"std_obj[{k}]", Obj("dataclass", "S_" + k, (F("a", t), F("b", INT, default="0", has_default=True, default_value=0)))),
        ]
        if k not in ("decimal", "deque_int"):
            out.append((f"std_key[{k}]", MapT("mapping", t, INT)))
    from ..tast import FLOAT, Con

    out += [
        ("con:int_multof_float", Con(INT, (("mult_of", 0.5),))),
        ("con:float_multof_float", Con(FLOAT, (("mult_of", 0.5),))),
        ("con:int_bounds_float", Con(INT, (("min", 0.5), ("max", 10.5)))),
        ("con:list_int_multof_float", Coll("list", Con(INT, (("mult_of", 0.25),)))),
    ]
    any_t = AnyT()
    out += [
        ("anyset:set", Coll("set", any_t)),
        ("anyset:frozenset", Coll("frozenset", any_t)),
        ("anyset:absset", Coll("absset", any_t)),
        ("anyset:set_union_list", Coll("set", Uni((INT, Coll("list", INT))))),
        ("anyset:set_union_dict", Coll("frozenset", Uni((STR, MapT("dict", STR, INT))))),
        ("anyset:list_set", Coll("list", Coll("set", any_t))),
        ("anyset:obj", Obj("dataclass", "S_anyset", (F("a", Coll("set", any_t)),))),
    ]
    return out


class _WorldCase:
    """the slice of deser_common.Case that check_one uses, for types written as source"""

    def __init__(self, label, source):
        self.label = label
        self.spec = label
        self._source = source

    def realize(self):
        return self

    @property
    def source(self):
        return self._source


def run_discriminated(st):
    """discriminated unions / classes and tagged unions (they are outside the C01 grammar): every body x every
    discriminator value (mapped, unmapped, non-string, unhashable, absent) x every mapping class of the datum
    (dict, dict subclasses with and without __missing__, defaultdict, OrderedDict, non-dict mappings) x options"""
    import collections
    import types as _types

    from ..realize import PRELUDE, exec_source
    from .c13 import DISC_SRC

    mod = exec_source(PRELUDE + DISC_SRC)
    wrappers = [
        ("dict", dict),
        ("DictSub", DictSub),
        ("defaultdict_str", lambda d: collections.defaultdict(str, d)),
        ("defaultdict_tag", lambda d: collections.defaultdict(lambda: "Cat", d)),
        ("defaultdict_list", lambda d: collections.defaultdict(list, d)),
        ("missingdict", MissingDict),
        ("ordereddict", collections.OrderedDict),
        ("mappingproxy", _types.MappingProxyType),
        ("userdict", collections.UserDict),
    ]
    targets = {name: utp for name, (utp, _k, _m, _d) in mod.EXPECT.items()}
    targets["Tagged1"] = mod.Tagged1
    targets["ListDefault"] = List[mod.Default]
    targets["OptInherited"] = Optional[mod.Inherited]
    targets["DictPet"] = Dict[str, mod.Pet]
    keyname = {name: k for name, (_u, k, _m, _d) in mod.EXPECT.items()}
    digest0 = class_digest(mod)
    for name, utp in targets.items():
        key = keyname.get(name, "type" if name != "OptInherited" and name != "DictPet" else "kind")
        mapped = list(mod.EXPECT[name][2]) if name in mod.EXPECT else ["Cat", "Kitten", "a"]
        keys = mapped[:2] + ["nope", "", 1, None, True, 1.5, (1,), "<absent>", "<list>", "<dict>"]
        bodies = [{}, {"x": 1}, {"x": "bad"}, {"n": 2, "zz": 0}, {"v": 3}, {"a": 1}, {"a": 1, "b": "s"}]
        case = _WorldCase("disc:" + name, DISC_SRC)
        for co, ap, fb, nc in OPTS16:
            try:
                method = apischema.deserialization_method(utp, coerce=co, additional_properties=ap, fall_back_on_default=fb, no_copy=nc)
            except Exception as e:
                st.violation({"label": case.label, "signature": {"kind": "compile_exception", "exc": type(e).__name__, "world": name}, "what": f"deserialization_method({name}) raised {e!r}"[:300]})
                break
            for k in keys:
                for body in bodies:
                    for wname, wrap in wrappers:
                        d0 = dict(body)
                        if k == "<list>":
                            d0[key] = [1]
                        elif k == "<dict>":
                            d0[key] = {"a": 1}
                        elif k != "<absent>":
                            d0[key] = k
                        d = wrap(d0)
                        if name == "ListDefault":
                            d = [d]
                        elif name == "DictPet":
                            d = {"k": d}
                        check_one(case, method, d, st, (co, ap, fb, nc), f"{wname}:{type(k).__name__ if not isinstance(k, str) else k}", 1, {"world": name, "additional_properties": ap})
            for wkind, mk in WILD:
                check_one(case, method, mk(), st, (co, ap, fb, nc), wkind, 0, {"world": name, "additional_properties": ap})
    if class_digest(mod) != digest0:
        st.violation({"label": "disc", "signature": {"kind": "class_mutated", "shape": "disc"}, "what": "user classes were modified by deserialization", "source": DISC_SRC})
    st.count("discriminated_worlds", len(targets))


def quick_filter(label: str) -> bool:
    """quick tier: level<=1 everything; level 2 only over the 'int' and 'float' atom representatives"""
    return dc.level_of(label) <= 1 or label.endswith("[int]]") or label.endswith("[float]]")


FAILING_VALIDATORS_SRC = '''
@dataclass
class Hist:
    bounds: List[int] = field(default_factory=list)
    values: List[int] = field(default_factory=list)
    label: str = field(default="")
    # discards a field it does not read itself
    @validator(discard=values)
    def bounds_sorted(self):
        if self.bounds != sorted(self.bounds):
            raise ValidationError("bounds not sorted")
    @validator
    def values_in_bounds(self):
        if self.bounds and any(v > self.bounds[-1] for v in self.values):
            yield get_alias(self).values, "value above the last bound"
    # located at a field it never reads
    @validator(label)
    def some_bounds(self):
        if len(self.bounds) == 1:
            raise ValidationError("a single bound")
'''


def run_failing_validators(st):
    """validators that fail (raise / yield, with discard / field location on fields they do not read themselves) on every
    combination of field states, next to structural errors: still nothing but a ValidationError, and it terminates"""
    from ..realize import PRELUDE, exec_source

    mod = exec_source(PRELUDE + "from apischema.objects import get_alias\n" + FAILING_VALIDATORS_SRC)
    case = _WorldCase("validators:Hist", PRELUDE + FAILING_VALIDATORS_SRC)
    states = {"bounds": [None, [1, 2], [2, 1], [5], "x", [1, "y"]], "values": [None, [1], [9], "x", [None]], "label": [None, "ok", 7]}
    signal.signal(signal.SIGALRM, _alarm)
    for co, ap, fb, nc in OPTS4:
        method = apischema.deserialization_method(mod.Hist, coerce=co, additional_properties=ap, fall_back_on_default=fb, no_copy=nc)
        for combo in itertools.product(*states.values()):
            d = {k: v for k, v in zip(states, combo) if v is not None}
            signal.alarm(20)
            try:
                check_one(case, method, d, st, (co, ap, fb, nc), "validators", 1)
            except Timeout:
                st.violation({"label": case.label, "datum": repr(d), "signature": {"kind": "timeout", "shape": "validators"}, "what": f"deserialize(Hist, {d!r}) did not terminate"})
            finally:
                signal.alarm(0)
    import sys

    sys.modules.pop(mod.__name__, None)
    apischema.cache.reset()


def work(tier, widx, nworkers, st, extra):
    if widx == (2 % nworkers) and os.environ.get("VERIF_ONLY") in (None, "", "validators"):
        try:
            run_failing_validators(st)
        except Exception:
            import traceback

            st.violation({"signature": {"kind": "harness_error"}, "harness_error": True, "what": "failing validators", "traceback": traceback.format_exc()[-2000:]})
    signal.signal(signal.SIGALRM, _alarm)
    for i, label, spec in dc.my_types("quick", widx, nworkers):
        if tier == "quick" and not quick_filter(label):
            continue
        signal.alarm(120)
        try:
            run_type(i, label, spec, tier, st)
        except Timeout:
            st.violation({"label": label, "signature": {"kind": "timeout", "shape": dc.shape_of(label)}, "what": "deserialize did not terminate within the horizon (120 s per type)"})
        finally:
            signal.alarm(0)
    only = __import__("os").environ.get("VERIF_ONLY")
    if widx == (1 % nworkers) and (not only or only.startswith("disc")):
        run_discriminated(st)
    for j, (label, spec) in enumerate(extra_types()):
        if j % nworkers != widx or (only and only not in label):
            continue
        signal.alarm(120)
        try:
            run_type(10 ** 6 + j, label, spec, tier, st)
        except Timeout:
            st.violation({"label": label, "signature": {"kind": "timeout", "shape": dc.shape_of(label)}, "what": "deserialize did not terminate within the horizon (120 s per type)"})
        finally:
            signal.alarm(0)


def main(tier: str, t0: float) -> int:
    sys.setrecursionlimit(1000)
    st = infra.run_pool("vf.checks.c03", tier)
    return infra.finish(
        PROP,
        tier,
        st,
        t0,
        rule=RULE,
        coverage_extra={"exhaustive": True, "wild_atoms": [k for k, _ in WILD], "bounds": {"nesting": 2, "wild_substitutions_per_datum": 1}},
        assumptions=[
            "generated types contain no user converter/validator/coercer, so every non-ValidationError exception is the library's",
            "interpreter recursion limit 1000 (default); json.loads accepts ~1000 levels, so 400- and 900-deep data of recursive types are in scope",
        ],
    )


def replay(path: str) -> int:
    v = json.load(open(path))
    print("replay: re-run `python -m vf.run C03 --only '%s'` (wild data are not literal-evaluable)" % v.get("label"))
    import os

    os.environ["VERIF_ONLY"] = v["label"]
    st = infra.run_pool("vf.checks.c03", "thorough", nworkers=1)
    n = 0
    for x in st.violations:
        if x.get("label") == v["label"] and x.get("signature") == v.get("signature"):
            n += 1
    if n:
        print(f"VIOLATION property=C03 replay={path}")
        print(f"  reproduced {n} case(s) with signature {v.get('signature')}")
    return 1 if n else 0
