CHECKS = [
    {
        "id": "C01", "engine": "E1", "design_ref": "DESIGN.md §5 C01",
        "technique": "bounded exhaustive enumeration of (type term, options, datum) against an independent reference model",
        "text": "Every type of the bounded grammar (all ctor/shape pairs, nesting 2) x every datum at <=2 deviations from a valid skeleton x option vectors is executed on the real deserialize and compared (verdict and typed image with runtime classes) with an independent reference model of the documented data model; exhaustive within the stated bounds, nothing sampled. The grammar covers 18 unary constructors (incl. mappings with Enum / Literal keys) and 45 object shapes (incl. inheritance, hand-written __init__, inferred pattern properties, recursive types through Optional / list / dict / fixed-size tuple / serialized methods, constraints on back-references and on literal / enum positions).",
        "note": "Trusted: the reference model (vf/refmodel/deser.py, written from the docs, no code shared with apischema); cases the docs do not decide are excluded and counted. Bounds: nesting depth 2, <=2 deviations, atom pools listed in evidence.",
    },
    {
        "id": "C02", "engine": "E1", "design_ref": "DESIGN.md §5 C02",
        "technique": "bounded exhaustive enumeration of rejected (type, options, datum with <=3 independent deviations) against a reference error model + compositional self-check + cross-interpreter digest",
        "text": "Every rejected datum of the C01 space (k<=2, k<=3 at level<=1 in thorough) is executed; the multiset of (loc, message) is compared with the reference model, list order, from_errors round trip and the compositional law errors(parent)|child == errors(child) are checked on the real code, under the default and a fully customised settings.errors catalogue; a digest of all error lists is compared between two interpreters with different hash seeds.",
        "note": "Trusted: reference error model (vf/refmodel/deser.py). Message order inside one location is compared as a multiset (the by-type shortcut legitimately orders them differently).",
    },
    {
        "id": "C03", "engine": "E1", "design_ref": "DESIGN.md §5 C03",
        "technique": "bounded exhaustive enumeration: every wild atom substituted at every position of every skeleton x 16 option vectors; crash / purity oracle",
        "text": "For every type of the grammar, every skeleton datum and every single substitution of 51 wild / JSON atoms at every position is deserialized under coerce x additional_properties x fall_back_on_default x no_copy; any exception other than ValidationError, a non-computable or non-JSON-serialisable .errors, a modified input (structure and container identities) or modified user classes is a violation; 50/400/900-deep data for recursive shapes. Also explored: every standard-library type with a built-in conversion (bare and under 9 contexts), sets of Any / of unions with unhashable images, float multipleOf, and a world of discriminated / tagged unions fed with every (body, discriminator value, mapping class of the datum incl. defaultdict / __missing__ dicts / OrderedDict / MappingProxyType / UserDict).",
        "note": "Bounds: one wild substitution per datum, nesting 2; recursion limit 1000. Known finding: RecursionError on 400/900-deep data of recursive types (listed in known_findings.json).",
    },
    {
        "id": "C20", "engine": "E3", "design_ref": "DESIGN.md §4, §5 C20",
        "technique": "stateless model checking of the implementation: exhaustive enumeration of thread schedules with bounded preemptions (CHESS-style iterative context bounding) under a cooperative scheduler driven by sys.monitoring line/bytecode events",
        "text": "For each harness (2-3 real threads performing the first deserialize / serialize / schema generation — including two schema generations in the same direction — on fresh recursive, mutually recursive, generic, shared-member, converted and plain types) every schedule with <=1 preemption (quick) / <=2 preemptions on the shared-state core plus bytecode-level points on the recursion analysis (thorough) is executed on the real code; each thread's result and follow-up observations must equal the sequential baseline; failing schedules are replayed twice before being reported; replayed prefixes are validated entry by entry.",
        "note": "Assumes CPython 3.12 GIL semantics (switches only between bytecodes, C-level dict/lru_cache operations atomic). Scheduling points: the lines of the modules owning shared state and of the visitors / factories around them, plus one configuration with a point at every line of every apischema module (no assumption on where shared state lives). Bounds: 2 threads (3 in one harness), <=2 preemptions. Randomised preemption (sampling) is not used.",
    },
    {
        "id": "C09", "engine": "E2", "design_ref": "DESIGN.md §3, §5 C09",
        "technique": "explicit-state exploration of all configuration-operation histories up to a depth over a finite alphabet, each replayed on a fresh world of the real library, with a cold-start differential oracle",
        "text": "All histories of length <=2 (thorough: plus same-family triples and observation/operation interleavings) over 41 configuration operations (every settings class, every registry: add / replace / remove) are replayed on fresh classes with a full observation sweep (60 deserialize / serialize / schema observations on a pool of types sensitive to each registry) after every step; the final sweep must equal the sweep of a cold world (fresh classes, same configuration, never observed), also after cache.reset(), and of a fresh interpreter; every ordered pair of observations is checked for order independence on a fresh world.",
        "note": "Trusted: nothing beyond the real code (differential oracle). Bounds: depth 2 (3 for same-family triples), one pool of types. Known finding: Union[U1,U2] / Union[U2,U1] share a cache entry.",
    },
    {
        "id": "C15", "engine": "E2", "design_ref": "DESIGN.md §3, §5 C15",
        "technique": "explicit-state breadth-first search to a fixpoint over operation histories on a real object, canonical state = (class, field values, tracked set), invariant checked in every state against a set model",
        "text": "For 11 with_fields_set classes (defaults, default_factory, default_as_set, init=False, InitVar, __post_init__ assignment, decorated/undecorated inheritance, aliases) every initial state (constructor with every argument subset, positional and keyword; deserialize with every key subset) and every sequence of set / unset / overwrite / assign / replace / dataclasses.replace operations is explored breadth-first on real objects until no new canonical state appears; fields_set, is_set, serialize() and serialize(exclude_unset=False) are compared with a set model in every state. Pool extended with frozen, keyword-only-field and inherited keyword-only classes; the object a replace() was taken from stays alive as a second object with its own model and operations.",
        "note": "Values from a 2-element domain per field; the canonical state determines all futures so merging is sound; depth cap reported if hit.",
    },
    {
        "id": "C13", "engine": "E1", "design_ref": "DESIGN.md §5 C13",
        "technique": "bounded exhaustive enumeration of unions (all ordered pairs of a 38-alternative pool, all 3-/4-permutations of a colliding core) x data x coercion with a self-composition oracle on the real code",
        "text": "Every union is deserialized on the union of its alternatives' data (skeletons, <=1-deviation mutants, universal atoms), with and without coercion; the alternatives are deserialized individually by the real code and the union must accept iff one accepts, with a value == the first accepting one (class of some accepting alternative); serialization must equal the first class-matching alternative's. Discriminated unions (Annotated default/explicit/partial/non-overriding mapping, literal and str discriminator fields, inherited discriminator, TypedDict) are enumerated over every mapping key x body, with round trip; TaggedUnion over every tag subset. Data include instances of subclasses of dict / list / str / int / float; discriminated unions whose alternatives have properties / pattern-properties fields.",
        "note": "Oracle is the implementation itself on the alternatives (C01 vouches for them). Every union is checked from reset caches because Union[A,B]==Union[B,A] for typing (known finding of C09).",
    },
    {
        "id": "C14", "engine": "E1", "design_ref": "DESIGN.md §5 C14",
        "technique": "bounded exhaustive enumeration of (type, datum enriched with coercible strings, coercion mode) with a relational oracle (strict vs coerce) and a reference model extended with the documented coercion table",
        "text": "For every type of the grammar and every datum (C01 data plus numeric strings, the 14 boolean words in three casings, near-misses, '' and whitespace at every position): strict-accepted implies coerce-accepted with an equal typed value (union-free, no fall-back field); the coerce=True outcome equals the reference model extended with the documented table at primitive positions only, so acceptance through any other route is flagged; the settings route equals the parameter route; wrong-typed and raising custom coercers give exactly the strict outcome, a right-typed one the model's. Plus a world of discriminated and recursive discriminated unions (strict-accepted data stay accepted with equal values under coerce=True and custom coercers).",
        "note": "Trusted: reference model + the table as stated in the property (bool is not a number). Types with fall_back_on_default fields are exempt from the equal-value clause (an invalid field is accepted as its default in strict mode).",
    },
    {
        "id": "C04", "engine": "E1", "design_ref": "DESIGN.md §5 C04",
        "technique": "bounded exhaustive enumeration of (type term, model-built value, serialization options) against an independent reference image model with a single omission formula",
        "text": "Every type of the grammar (with serialized methods / properties, serialization_if / serialization_default, none_as_undefined, Undefined defaults, with_fields_set shapes) x every value built from the model's typed images of all skeleton data plus Undefined / None / default-equal / unset variants x exclude_none x exclude_defaults x exclude_unset x additional_properties x 3 aliasers is serialized by the real code; the output must contain only exact JSON classes and equal the reference image; check_type / fall_back_on_any must not change it; serialize(v) must equal serialize(type(v), v). Values include tracked fields (required ones too) unset after construction.",
        "note": "Trusted: vf/refmodel/ser.py (written from the docs). Values are of their type. A str value under Union[Sequence[...], str] is excluded (str is a Python Sequence; dispatch undecided by the docs).",
    },
    {
        "id": "C05", "engine": "E1", "design_ref": "DESIGN.md §5 C05",
        "technique": "bounded exhaustive enumeration of the bijective fragment with a relational (round-trip) oracle on the real code",
        "text": "For every type of the bijective fragment x every model-built value x 3 aliasers x additional_properties: deserialize(serialize(v)) is the typed value (classes at every position), also through json; for every accepted datum of the C01 space serialize(deserialize(d)) contains d and re-deserializes to an equal value; 15 standard-library converted types and 4 discriminated unions x 6 contexts x sample values.",
        "note": "Non-bijective shapes are excluded by name and listed in the evidence. Known findings: non-dyadic Decimal; Optional[Union[...]] with inherited discriminator.",
    },
    {
        "id": "C08", "engine": "E1", "design_ref": "DESIGN.md §5 C08",
        "technique": "bounded exhaustive enumeration of (type, datum / value) x the option lattice with a differential oracle against the default option vector, on the real code",
        "text": "Deserialization: every type x every datum at <=1 deviation x no_copy x override_dataclass_constructors x {deserialize(), precomputed method}: same verdict, same typed value, identical errors; no shared mutable container with the input when no_copy=False; input never modified. Serialization: every model-built value x no_copy x check_type x {function, method} x all 32 PassThroughOptions flag vectors (+ types as a set and as a predicate): equal to the default output after completing passed-through leaves with serialization_default. Deserialization pass_through (a predicate and a class set) x no_copy is explored on JSON data (identical results required); the no-sharing clause of no_copy=False is checked on Any positions too.",
        "note": "quick = level<=1 types; thorough adds the level-2 pairs. Known finding: pass-through dataclass holding a flattened field raises TypeError.",
    },
    {
        "id": "C06", "engine": "E1", "design_ref": "DESIGN.md §5 C06",
        "technique": "bounded exhaustive enumeration of (type, options, datum) with an independent JSON Schema validator (jsonschema, draft 2020-12) as oracle for the schema side",
        "text": "For every type of the grammar, additional_properties x aliaser x all_refs and every datum at <=2 deviations inside the common semantic domain stated by the property, the verdict of jsonschema.Draft202012Validator on deserialization_schema(T, ...) must equal the verdict of the real deserialize; the schema must also pass check_schema; disagreements are classified by direction and deciding keyword. A world of discriminated unions / classes is explored too (known finding: their schemas rely on the OpenAPI discriminator keyword).",
        "note": "Trusted: jsonschema 4.26. Excluded (documented): fall_back_on_default fields (lenient parsing of invalid fields), keys matching two overlapping properties(pattern) fields (first-match vs all-match). Known findings: flattened objects' schema; nested flattened schema generation.",
    },
    {
        "id": "C07", "engine": "E1", "design_ref": "DESIGN.md §5 C07",
        "technique": "bounded exhaustive enumeration of (type, value, global exclude settings, aliaser, additional_properties) with jsonschema as oracle",
        "text": "Every model-built value of every type of the grammar is serialized under settings.serialization.exclude_defaults x exclude_none (global) x 3 aliasers x additional_properties and validated by jsonschema against serialization_schema generated under the same settings. Plus source worlds: converted types (registered / dynamic / field conversions, generic conversions, collection-like classes) and serialized methods registered after a first use.",
        "note": "exclude_unset=False (no field dropped by unset-tracking, as the property requires). Same known findings as C06 for flattened objects.",
    },
    {
        "id": "C17", "engine": "E1", "design_ref": "DESIGN.md §5 C17",
        "technique": "bounded exhaustive enumeration of (type, all_refs, ref_factory, version, with_schema, entry point) with meta-schema validation, $ref closure walk and a reference-count model over the type term",
        "text": "For every type of the grammar and 8 source worlds (type_name string / factory / None, NewType and Annotated names, recursion, name clash, nameless recursion) x all_refs x {default, prefix} ref_factory x 5 versions x with_schema x {deserialization, serialization}: generation terminates (watchdog), the document validates against the meta-schema of the dialect it declares, every $ref (and discriminator mapping target) resolves to a definition (inline or definitions_schema), the set of definitions equals the set predicted by a reference-count model on the type term, definitions_schema equals the inline $defs, clashes / nameless recursion are refused. Oracles added: no non-productive reference cycle (definitions referring to each other through $ref / allOf / anyOf / oneOf only), definitions_schema of both sides equal to the one-sided definitions; worlds for discriminated parents / children in both orders, serialized methods (recursive, converted), spellings of builtin containers, same name across the two sides.",
        "note": "Trusted: jsonschema meta-schemas. Unreferenced definitions under all_refs=True are counted, not flagged (the property does not forbid them). Nested flattened types skipped (known finding of C06).",
    },
    {
        "id": "C18", "engine": "E1", "design_ref": "DESIGN.md §5 C18",
        "technique": "bounded exhaustive enumeration of (type, target dialect, datum) with the validators of each dialect as oracles + exhaustive vocabulary walk of every converted schema",
        "text": "For every type of the grammar, both schema functions and the four target versions: the converted schema validated by the target dialect's own validator (Draft201909 / Draft7; OpenAPI 3.0 through its documented mapping; $refs against definitions_schema of the same version) accepts exactly the data (<=1 deviation enumeration) the 2020-12 schema accepts; a recursive walk finds no keyword outside the target vocabulary and only the target reference prefix, at any depth and in the definitions. Worlds: discriminated classes (definitions carrying dependentRequired / prefixItems / const), exclusive bounds, and global serialization settings (pass_through, exclude_*, check_type) that must not leak into the conversion.",
        "note": "Known findings: unevaluatedProperties in draft-07 (flattened objects), {'type': 'null'} in OpenAPI 3.0 for a None-typed position.",
    },
    {
        "id": "C16", "engine": "E1", "design_ref": "DESIGN.md §5 C16",
        "technique": "exhaustive enumeration of every class with <=n elements and every well-founded ordering specification, four views against a reference ordering function",
        "text": "Every class with up to 4 (quick) / 5 (thorough) elements (fields then 0-2 serialized methods) and every per-element ordering specification from {none, order(-1), order(1), order(999), after=x, before=x for every other x} with acyclic anchors, plus class-level order([...]) permutations, order({...}) overrides and inheritance, is compiled from generated source; the key order of serialize(), of the properties of both schemas and of the GraphQL object type must be the reference permutation (projected on the elements of the view). Also: methods with an alias different from their name, anchors absent from a view (skip / init=False), resolver(serialized=True, order=...), and the properties order of definitions merged from both sides.",
        "note": "Cyclic specifications are excluded and counted. The reference function is written from the property statement.",
    },
    {
        "id": "C10", "engine": "E1", "design_ref": "DESIGN.md §5 C10",
        "technique": "exhaustive enumeration of generated validator classes x data states x pass/fail vectors, observing the invoked validators through their side effects, against a reference gating rule",
        "text": "Every class of the space (3 fields; 1-2 validators, 3 in thorough, each with every non-empty dependency subset read directly / through a method / through a property, kind plain / validator(field) / validator(discard=g), raise / yield / yield-with-path style, with and without inheritance) x every datum assigning each field absent / valid / invalid x every pass/fail vector x {identity, camelCase} aliaser: the exact sequence of validators invoked, the sorted error list and the construction verdict must equal the 25-line reference rule; termination is enforced by a watchdog with recursion limit 300. Fields are read directly, through helpers, a property, a functools.cached_property and a diamond of helpers shared by the validators; errors are raised, yielded, yielded with a field path or with the integer path 0; three validators on a reduced alphabet are in the quick tier.",
        "note": "Order between a class and its bases is the library's documented MRO order. Validators are generated source (the dependency finder needs inspect.getsource).",
    },
    {
        "id": "C11", "engine": "E1", "design_ref": "DESIGN.md §5 C11",
        "technique": "exhaustive enumeration of naming configurations (name x alias x override x class aliaser x dynamic aliaser x route) with an 18-view equality oracle against the documented naming formula",
        "text": "108 generated classes x 3 dynamic aliasers x {parameter, settings} route: the expected external name dyn(class_aliaser(alias or name)) must be the key consumed by deserialize (every other candidate spelling is rejected with missing/unexpected at the right keys), the key emitted by serialize, the entry of properties / required / dependentRequired of both schemas, the loc of structural, field-validator and yielded get_alias errors (plain, nested, flattened), the GraphQL output field, input field and argument names and the loc of a GraphQL argument error. Configurations include generic classes reached through a specialisation, dependent_required enforcement / location / schema, and validator locations when another field is structurally invalid.",
        "note": "GraphQL views only for names that are valid GraphQL identifiers.",
    },
    {
        "id": "C12", "engine": "E1", "design_ref": "DESIGN.md §5 C12",
        "technique": "exhaustive enumeration of conversion worlds (graph x placement x source type x context x datum) with a commuting-square oracle on the real code",
        "text": "For every conversion graph (single, catch_value_error, lazy; two deserializers in both orders, chain, generic, inherited / non-inherited serializer, annotated class, identity bypass) x placement (registered, dynamic, Annotated, field metadata, default_conversion) x source type (int, str, List[int], dataclass) x 9 contexts x every datum of the source pool: deserialize(C[K], d) == map_C(f, deserialize(C[S], d)) with identical rejections and errors, serialize(C[K], v) == serialize(C[U], g(v)), both schemas equal those of the source / target type (plus the class's own schema()/type_name), dynamic conversions must not reach into object fields, identity gives the unconverted behaviour. Worlds: generic conversions with a bare type variable end, collection-like classes with a registered conversion under dynamic / field conversions, constraints declared next to a conversion (schema agreement).",
        "note": "The implementation on the source/target type is the reference (C01/C04 check it). Schemas under a per-call default_conversion are compared modulo the `default` annotation.",
    },
    {
        "id": "C19", "engine": "E1", "design_ref": "DESIGN.md §5 C19",
        "technique": "bounded exhaustive enumeration of the GraphQL-compatible fragment of the type grammar x values x argument data + source worlds, with graphql-core (validation, execution, input coercion), a type-expression prediction model and the real serialize / deserialize as oracles",
        "text": "For every object type of the GraphQL-compatible fragment: graphql_schema must build, pass assert_valid_schema and print_schema; every output and input field must have the predicted name and type expression (list / non-null wrapping, Input suffix, named scalars and enums); the full-selection query on every model-built value must equal the reference image (enums by name, omitted fields null); for every datum at <=1 deviation the resolver is invoked iff deserialize accepts the (graphql-core coerced) datum, with an equal value, else a GraphQL error and no call. Worlds: 10 argument signatures (required, default, None, unserialisable, list and object defaults, Undefined, enum default, constrained), interfaces, unions of objects, id_types with and without id_encoding (literal and variable), error handler, aliaser / enum_aliaser. Worlds: interface hierarchies, explicit null arguments, parameters around the info parameter, aliased object defaults, JSON scalars holding objects.",
        "note": "Types with Enum members are exempt from the argument check (GraphQL enum inputs are by name), fall_back_on_default shapes too. Known finding: Enum-typed defaults are stored by value.",
    },
]
_PENDING = "check not built yet in this round (planned, see DESIGN.md §5); not claimed until it runs green"
NOT_APPLICABLE = [{"property_id": f"C{i:02d}", "reason": _PENDING} for i in range(4, 20) if i not in range(1, 21)]
