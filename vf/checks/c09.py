"""C09 — cached methods never go stale across configuration histories.
Engine E2: every history of configuration operations up to a depth, each replayed on a fresh
world (fresh classes, default settings, reset caches) with a full observation sweep after every
operation (which warms every cache); the final sweep must equal the sweep of a cold world that
applied the same configuration operations without ever observing."""
from __future__ import annotations

import itertools
import json
import os
import subprocess
import sys
import time
from typing import Any, Callable, Dict, List, Optional, Tuple

from .. import infra
from .. import world
from ..realize import PRELUDE, exec_source

import apischema
from apischema import ValidationError, settings

PROP = "C09"
RULE = (
    "alphabet of configuration operations (settings assignments to a non-default value and back; registrations and "
    "removals on every registry) x every history up to the depth bound; each history runs on a fresh world; after every "
    "operation a sweep of observations (deserialize on several data / serialize / both schemas on every pool type) is "
    "made, so every cache is warm before the next operation; the last sweep is compared with (a) a cold fresh world that "
    "applied only the operations, (b) the same world after apischema.cache.reset(). thorough adds histories interleaving "
    "single observations (partial warm-up) and fresh-interpreter cold references. states = distinct final configurations, "
    "transitions = operations applied, traces = histories executed on the real code."
)

WORLD_SRC = '''
class K:
    def __init__(self, x): self.x = x
    def __repr__(self): return f"K({self.x!r})"
    def __eq__(self, o): return isinstance(o, K) and o.x == self.x

def k_from_int(x: int) -> K: return K(x)
def k_from_str(x: str) -> K: return K("s:" + x)
def k_to_int(k: K) -> int: return 7
def k_to_str(k: K) -> str: return "seven"

@dataclass
class DC:
    a_b: int = 0
    c: Optional[str] = None
    def extra(self) -> int:
        return 42

@dataclass
class Holder:
    k: Optional[K] = None
    dc: DC = field(default_factory=DC)

# conversions built from the object fields of DC (evaluated lazily): they must follow every later
# change of the fields of DC
from apischema.objects import object_serialization, object_deserialization
DC_OS = object_serialization(DC, [...])
def _dc_from(a_b: int = 0, c: Optional[str] = None) -> DC:
    return DC(a_b, c)
DC_OD = object_deserialization(_dc_from)

NT = NewType("NT", int)

class Color(Enum):
    RED = "r"
    BLUE = "b"

# values embedded as they are in a schema (default / examples given through schema(), the member of a Literal): they are
# serialized when the schema is, with the configuration of that moment
@dataclass
class Ex:
    d: DC = field(default_factory=DC, metadata=schema(default=DC(5, None), examples=[DC(6, "e")]))
    lit: Literal[Color.RED] = Color.RED

@dataclass
class Val:
    lo: int = 0
    hi: int = 10
def val_check(self: Val):
    if self.lo > self.hi:
        raise ValidationError("lo > hi")

@dataclass
class Base:
    x: int = 0
@dataclass
class Cat(Base):
    pass
@dataclass
class Dog(Base):
    pass

@dataclass
class U1:
    u: int = 0
@dataclass
class U2:
    u: int = 0

@dataclass
class Con:
    n: Annotated[int, schema(min=5)] = 5
    items: Annotated[List[int], schema(max_items=1)] = field(default_factory=list)

# fields of DC computed by a callable whose answer can change (registered again after the change, as the docs ask)
PROVIDER = {"wide": False}
def dc_fields_provider():
    from apischema.objects import ObjectField
    fields = [ObjectField("a_b", int, required=False, default=0)]
    if PROVIDER["wide"]:
        fields.append(ObjectField("c", Optional[str], required=False, default="w"))
    return fields

# a class which is not a dataclass: its fields come from set_object_fields only
class PNode:
    def __init__(self, value=0, child=None):
        self.value, self.child = value, child
    def __repr__(self): return f"PNode({self.value!r}, {self.child!r})"

# a per-call default_conversion that makes Folder recursive (User -> its folders)
@dataclass
class User:
    name: str = "u"
    folders: list = field(default_factory=list)
@dataclass
class Folder:
    name: str = "f"
    owner: User = field(default_factory=User)
def _user_folders(u: User) -> List[Folder]: return u.folders
def folder_dc(tp):
    from apischema.conversions.converters import default_serialization
    return _user_folders if tp is User else default_serialization(tp)
'''


# ---------------------------------------------------------------------------------- ops
def camel(s):
    return apischema.utils.to_camel_case(s)


def _upper(s):
    return s.upper()


def _type_name_factory(tp):
    from apischema.type_names import TypeName

    n = getattr(tp, "__name__", None)
    return TypeName("Pfx" + n, "Pfx" + n) if n and isinstance(tp, type) and tp.__module__.startswith("vfgen") else None


def _base_schema_type(tp):
    if isinstance(tp, type) and tp.__module__.startswith("vfgen"):
        return apischema.schema(description="base:" + tp.__name__)
    return None


def _coercer(cls, data):
    from apischema.deserialization.coercion import coerce

    return coerce(cls, data)


OPS: Dict[str, Callable[[Any], None]] = {}


def op(name):
    def deco(f):
        OPS[name] = f
        return f

    return deco


def setting(name, target, attr, value):
    def f(m):
        obj = settings
        for part in target:
            obj = getattr(obj, part)
        setattr(obj, attr, value)

    OPS[name] = f


setting("set:additional_properties=T", (), "additional_properties", True)
setting("set:additional_properties=F", (), "additional_properties", False)
setting("set:aliaser=camel", (), "aliaser", camel)
setting("set:default_type_name=pfx", (), "default_type_name", _type_name_factory)
setting("set:json_schema_version=D7", (), "json_schema_version", apischema.json_schema.JsonSchemaVersion.DRAFT_7)
setting("set:base_schema.type", ("base_schema",), "type", _base_schema_type)
setting("set:errors.minimum", ("errors",), "minimum", "TOO SMALL {}")
setting("set:errors.missing", ("errors",), "missing_property", "MISSING!")
setting("set:errors.max_items", ("errors",), "max_items", "TOO MANY {}")
setting("set:deser.coerce=T", ("deserialization",), "coerce", True)
setting("set:deser.coerce=F", ("deserialization",), "coerce", False)
setting("set:deser.fall_back_on_default=T", ("deserialization",), "fall_back_on_default", True)
setting("set:deser.no_copy=F", ("deserialization",), "no_copy", False)
setting("set:deser.override_ctor=T", ("deserialization",), "override_dataclass_constructors", True)
setting("set:ser.exclude_defaults=T", ("serialization",), "exclude_defaults", True)
setting("set:ser.exclude_none=T", ("serialization",), "exclude_none", True)
setting("set:ser.exclude_none=F", ("serialization",), "exclude_none", False)
setting("set:ser.check_type=T", ("serialization",), "check_type", True)
setting("set:ser.fall_back_on_any=T", ("serialization",), "fall_back_on_any", True)


@op("set:camel_case=T")
def _(m):
    settings.camel_case = True


@op("set:camel_case=F")
def _(m):
    settings.camel_case = False


@op("deserializer:K<-int")
def _(m):
    apischema.deserializer(m.k_from_int)


@op("deserializer:K<-str")
def _(m):
    apischema.deserializer(m.k_from_str)


@op("reset_deserializers:K")
def _(m):
    apischema.conversions.reset_deserializers(m.K)


@op("serializer:K->int")
def _(m):
    apischema.serializer(m.k_to_int)


@op("serializer:K->str")
def _(m):
    apischema.serializer(m.k_to_str)


@op("reset_serializer:K")
def _(m):
    apischema.conversions.reset_serializer(m.K)


@op("set_object_fields:DC")
def _(m):
    from apischema.objects import ObjectField, set_object_fields

    set_object_fields(m.DC, [ObjectField("a_b", str, required=False, default="dflt")])


@op("cache.set_size=64")
def _(m):
    apischema.cache.set_size(64)


@op("set_object_fields:DC+rec")
def _(m):
    # the class becomes recursive after its first use
    from typing import Optional

    from apischema.objects import ObjectField, set_object_fields

    set_object_fields(m.DC, [ObjectField("a_b", int, required=False, default=0), ObjectField("c", Optional[m.DC], required=False, default=None)])


@op("set_object_fields:PNode+rec")
def _(m):
    # a plain class made an object type, recursive at once
    from typing import Optional

    from apischema.objects import ObjectField, set_object_fields

    set_object_fields(m.PNode, [ObjectField("value", int, required=False, default=0), ObjectField("child", Optional[m.PNode], required=False, default=None)])


@op("set_object_fields:DC=provider")
def _(m):
    from apischema.objects import set_object_fields

    set_object_fields(m.DC, m.dc_fields_provider)


@op("provider:widen+register_again")
def _(m):
    # the very same callable registered again once what it computes has changed: an equal value is still a registration
    from apischema.objects import set_object_fields

    m.PROVIDER["wide"] = True
    set_object_fields(m.DC, m.dc_fields_provider)


@op("deserializer:K<-Holder")
def _(m):
    # K deserialized from the shape of Holder, which holds a K: a cycle through a conversion
    def k_from_holder(h):
        return h.k

    k_from_holder.__annotations__ = {"h": m.Holder, "return": m.K}
    apischema.deserializer(k_from_holder)


@op("set_object_fields:DC=None")
def _(m):
    from apischema.objects import set_object_fields

    set_object_fields(m.DC, None)


@op("type_name:DC")
def _(m):
    apischema.type_name("Renamed")(m.DC)


@op("type_name:Cat")
def _(m):
    apischema.type_name("Feline")(m.Cat)


@op("discriminator:Base+Cat")
def _(m):
    apischema.discriminator("type", {"kitty": m.Cat})(m.Base)


@op("schema:DC")
def _(m):
    apischema.schema(description="a DC", min_props=1)(m.DC)


@op("schema:NT")
def _(m):
    apischema.schema(min=3)(m.NT)


@op("alias:DC=upper")
def _(m):
    apischema.alias(_upper)(m.DC)


@op("order:DC")
def _(m):
    apischema.order(["c", "a_b"])(m.DC)


@op("validator:Val")
def _(m):
    apischema.validator(m.val_check, owner=m.Val)


@op("dependent_required:DC")
def _(m):
    apischema.dependent_required({"c": ["a_b"]}, owner=m.DC)


@op("discriminator:Base")
def _(m):
    apischema.discriminator("type")(m.Base)


@op("serialized:DC.extra")
def _(m):
    apischema.serialized(owner=m.DC)(m.DC.extra)


ALPHABET = list(OPS)


# ---------------------------------------------------------------------------------- observations
def observations(m) -> List[Tuple[str, Callable[[], Any]]]:
    from apischema.json_schema import deserialization_schema, serialization_schema
    from typing import List, Optional, Union

    D, S = apischema.deserialize, apischema.serialize
    obs: List[Tuple[str, Callable[[], Any]]] = []

    def add(name, f):
        obs.append((name, f))

    for i, d in enumerate([{"a_b": 1, "c": "x"}, {"aB": 2}, {"A_B": 3, "C": None}, {"a_b": "4"}, {"c": "only"}, {"a_b": 1, "zz": 0}, {}]):
        add(f"D(DC,{d})", lambda d=d: D(m.DC, d))
    add("D(DC,nested)", lambda: D(m.DC, {"a_b": 1, "c": {"a_b": 2, "c": None}}))
    add("S(DC)", lambda: S(m.DC, m.DC(1, None)))
    add("S(DC,object_serialization)", lambda: S(m.DC, m.DC(1, None), conversion=m.DC_OS))
    add("sschema(DC,object_serialization)", lambda: serialization_schema(m.DC, conversion=m.DC_OS))
    add("D(DC,object_deserialization)", lambda: D(m.DC, {"a_b": 3}, conversion=m.DC_OD))
    add("D(DC,object_deserialization,aB)", lambda: D(m.DC, {"aB": 3}, conversion=m.DC_OD))
    add("S(DC())", lambda: S(m.DC, m.DC()))
    add("S(untyped DC)", lambda: S(m.DC(2, "y")))
    for d in [{"k": 1}, {"k": "a"}, {"k": None, "dc": {"a_b": 5}}]:
        add(f"D(Holder,{d})", lambda d=d: D(m.Holder, d))
    add("S(Holder)", lambda: S(m.Holder, m.Holder(m.K(1))))
    add("S(K)", lambda: S(m.K, m.K(1)))
    add("S(List[K])", lambda: S(List[m.K], [m.K(1)]))
    for d in [1, 4, "4"]:
        add(f"D(NT,{d!r})", lambda d=d: D(m.NT, d))
    for d in ["r", "RED", 1]:
        add(f"D(Color,{d!r})", lambda d=d: D(m.Color, d))
    add("S(Color)", lambda: S(m.Color, m.Color.RED))
    for d in [{"lo": 1, "hi": 0}, {"lo": 0, "hi": 1}, {"lo": "1"}]:
        add(f"D(Val,{d})", lambda d=d: D(m.Val, d))
    for d in [{"x": 1}, {"x": 1, "type": "Cat"}, {"type": "Dog"}, {"type": "Feline"}, {"type": "kitty", "x": 2}]:
        add(f"D(Base|Cat|Dog,{d})", lambda d=d: D(Union[m.Cat, m.Dog], d))
    add("S(Cat)", lambda: S(Union[m.Cat, m.Dog], m.Cat(1)))
    add("S(Base:Dog)", lambda: S(m.Base, m.Dog(2)))
    add("D(Base)", lambda: D(m.Base, {"type": "Cat", "x": 3}))
    add("D(Base,Feline)", lambda: D(m.Base, {"type": "Feline", "x": 3}))
    add("D(U1|U2)", lambda: D(Union[m.U1, m.U2], {"u": 1}))
    add("D(U2|U1)", lambda: D(Union[m.U2, m.U1], {"u": 1}))
    for d in [{"n": 1}, {"n": 6, "items": [1, 2]}, {"n": "9"}]:
        add(f"D(Con,{d})", lambda d=d: D(m.Con, d))
    add("S(Con)", lambda: S(m.Con, m.Con()))
    for t in ("DC", "Holder", "NT", "Val", "Con", "Color"):
        add(f"dschema({t})", lambda t=t: deserialization_schema(getattr(m, t)))
        add(f"sschema({t})", lambda t=t: serialization_schema(getattr(m, t)))
    add("dschema(Cat|Dog)", lambda: deserialization_schema(Union[m.Cat, m.Dog]))
    from apischema.json_schema import JsonSchemaVersion, definitions_schema

    add("dschema(Ex)", lambda: deserialization_schema(m.Ex))
    add("sschema(Ex,draft7)", lambda: serialization_schema(m.Ex, version=JsonSchemaVersion.DRAFT_7))
    add("dschema(Ex,oas3.0,all_refs)", lambda: deserialization_schema(m.Ex, version=JsonSchemaVersion.OPEN_API_3_0, all_refs=True))
    add("definitions(Ex)", lambda: definitions_schema(deserialization=[m.Ex], serialization=[m.Holder]))
    add("D(PNode)", lambda: D(m.PNode, {"value": 1, "child": {"value": 2}}))
    add("S(PNode)", lambda: S(m.PNode, m.PNode(1, m.PNode(2))))
    add("S(Folder)", lambda: S(m.Folder, m.Folder("a", m.User("u", [m.Folder("b")]))))
    add("S(Folder,default_conversion)", lambda: S(m.Folder, m.Folder("a", m.User("u", [m.Folder("b")])), default_conversion=m.folder_dc))
    add("M(DC)", lambda: apischema.deserialization_method(m.DC)({"a_b": 1}))
    add("SM(DC)", lambda: apischema.serialization_method(m.DC)(m.DC(3, "z")))
    return obs


def norm(x: Any) -> str:
    import re

    return re.sub(r"vfgen_\d+", "vfgen", repr(x))


def sweep(m, only: Optional[int] = None) -> List[Tuple[str, str]]:
    out = []
    for i, (name, f) in enumerate(observations(m)):
        if only is not None and i != only:
            continue
        try:
            r = ("ok", norm(f()))
        except ValidationError as e:
            r = ("invalid", norm(e.errors))
        except Exception as e:  # noqa
            r = ("exc", type(e).__name__ + ":" + norm(str(e))[:120])
        out.append((name, r))
    return out


def fresh_world():
    world.restore_settings()
    apischema.cache.reset()
    return exec_source(PRELUDE + WORLD_SRC)


def run_history(hist: List[str], observe: bool) -> List[Tuple[str, Any]]:
    """apply the history on a fresh world; with observe=True a full sweep follows every step
    (including before the first), so that every cache is warm; returns the final sweep"""
    m = fresh_world()
    try:
        if observe:
            sweep(m)
        for step in hist:
            if step.startswith("obs:"):
                if observe:
                    sweep(m, int(step[4:]))
                continue
            OPS[step](m)
            if observe:
                sweep(m)
        final = sweep(m)
        if observe:
            apischema.cache.reset()
            after_reset = sweep(m)
        else:
            after_reset = final
        return final, after_reset
    finally:
        sys.modules.pop(m.__name__, None)
        world.restore_settings()


def diff(a, b) -> List[Tuple[str, Any, Any]]:
    return [(n1, r1, r2) for (n1, r1), (n2, r2) in zip(a, b) if r1 != r2]


def config_of(hist: List[str]) -> Tuple[str, ...]:
    return tuple(h for h in hist if not h.startswith("obs:"))


def check_history(hist: List[str], st: infra.Stats, cold_cache: Dict[tuple, Any]):
    cfg = config_of(hist)
    if cfg not in cold_cache:
        cold_cache[cfg] = run_history(list(cfg), observe=False)[0]
    cold = cold_cache[cfg]
    warm, after_reset = run_history(hist, observe=True)
    st.count("histories")
    st.count("transitions", len(hist))
    st.note("configs", cfg)
    st.case(cfg)
    for name, r in cold:
        if r[0] == "exc" and r[1].startswith("RecursionError"):
            # whatever the history, compiling a method terminates
            st.violation({"signature": {"kind": "recursion_error", "observation": name.split("(")[0] + "(" + name.split("(")[1].split(",")[0].rstrip(")") + ")"}, "what": f"after {list(cfg)} (cold start): {name} raised RecursionError", "history": list(cfg)})
            break
    d1 = diff(warm, cold)
    d2 = diff(after_reset, cold)
    if d1:
        name, got, exp = d1[0]
        last = cfg[-1] if cfg else "-"
        st.violation(
            {
                "signature": {"kind": "stale", "after_op": last.split("=")[0] if last.startswith("set:") else last, "fixed_by_reset": not d2},
                "what": f"after {hist}: {name} = {got} but a cold start with the same configuration gives {exp} ({len(d1)} observations differ; reset() {'repairs' if not d2 else 'does NOT repair'} it)"[:600],
                "history": hist,
                "differing": [n for n, _, _ in d1][:10],
            }
        )
    elif d2:
        name, got, exp = d2[0]
        st.violation(
            {
                "signature": {"kind": "reset_changes_result", "after_op": cfg[-1] if cfg else "-"},
                "what": f"after {hist} + cache.reset(): {name} = {got} but cold start gives {exp}"[:600],
                "history": hist,
            }
        )


def histories(tier: str) -> List[List[str]]:
    out: List[List[str]] = [[]]
    A = ALPHABET
    for a in A:
        out.append([a])
    for a, b in itertools.product(A, A):
        if a != b:
            out.append([a, b])
    if tier == "thorough":
        nobs = len(observations(fresh_world()))
        # partial warm-up: one observation, one operation, (sweep) — and two observations in both orders
        for o in range(nobs):
            for a in A:
                out.append([f"obs:{o}", a])
        # depth 3 restricted to triples that mix registries of the same family (set -> unset -> set)
        fam: Dict[str, List[str]] = {}
        for a in A:
            key = a.split(":")[1].split("=")[0].split("<")[0].split("-")[0] if ":" in a else a
            fam.setdefault(key.split(".")[0], []).append(a)
        seen = set()
        for a, b, c in itertools.product(A, A, A):
            fa = {x.split(":")[-1].split("=")[0].split("<")[0].split("-")[0] for x in (a, b, c)}
            if len({a, b, c}) >= 2 and len(fa) <= 2 and a != b and b != c:
                key = (a, b, c)
                if key not in seen:
                    seen.add(key)
                    out.append([a, b, c])
    return out


def check_obs_pairs(widx, nworkers, st: infra.Stats):
    """observation-order independence: on a fresh world, observation j after observation i
    must give what observation j gives alone (cache entries shared between distinct requests)"""
    m0 = fresh_world()
    n = len(observations(m0))
    sys.modules.pop(m0.__name__, None)
    alone: Dict[int, Any] = {}
    for j in range(n):
        m = fresh_world()
        alone[j] = sweep(m, j)[0]
        sys.modules.pop(m.__name__, None)
    k = 0
    for i in range(n):
        for j in range(n):
            if i == j:
                continue
            k += 1
            if k % nworkers != widx:
                continue
            m = fresh_world()
            try:
                sweep(m, i)
                got = sweep(m, j)[0]
            finally:
                sys.modules.pop(m.__name__, None)
            st.count("histories")
            st.count("transitions", 2)
            st.case("pair", i, j)
            if got != alone[j]:
                name_i = observations(m)[i][0]
                st.violation(
                    {
                        "signature": {"kind": "order_dependent_observation", "obs": got[0], "after": name_i},
                        "what": f"on a fresh world, {got[0]} after {name_i} = {got[1]} but alone = {alone[j][1]}"[:500],
                        "history": [f"obs:{i}", f"obs:{j}"],
                        "pair": [i, j],
                    }
                )


def work(tier, widx, nworkers, st, extra):
    check_obs_pairs(widx, nworkers, st)
    hs = histories(tier)
    cold: Dict[tuple, Any] = {}
    for i, h in enumerate(hs):
        if i % nworkers != widx:
            continue
        if i % 501 == 0:
            st.sample({"history": h})
        try:
            check_history(h, st, cold)
        except Exception:
            import traceback

            st.violation({"signature": {"kind": "harness_error"}, "harness_error": True, "what": f"history {h}", "traceback": traceback.format_exc()[-2000:]})


FRESH_SNIPPET = """
import sys, json
sys.path.insert(0, {verif!r})
from vf import world
from vf.checks import c09
out = {{}}
for cfg in json.loads(sys.stdin.read()):
    out[json.dumps(cfg)] = c09.run_history(cfg, observe=False)[0]
print(json.dumps(out))
"""


def fresh_interpreter_reference(cfgs: List[List[str]]) -> Dict[str, Any]:
    p = subprocess.run(
        [sys.executable, "-c", FRESH_SNIPPET.format(verif=infra.VERIF_DIR)],
        input=json.dumps(cfgs),
        capture_output=True,
        text=True,
        cwd=infra.VERIF_DIR,
        env=dict(os.environ),
        timeout=1200,
    )
    return json.loads(p.stdout.strip().splitlines()[-1])


def main(tier: str, t0: float) -> int:
    st = infra.run_pool("vf.checks.c09", tier)
    # fresh-interpreter cold reference (what reset() and same-process worlds cannot show)
    cfgs = [[a] for a in ALPHABET] if tier == "quick" else [[a] for a in ALPHABET] + [[a, b] for a in ALPHABET[:12] for b in ALPHABET if a != b]
    try:
        chunks = [cfgs[i::8] for i in range(8)]
        import concurrent.futures as cf

        with cf.ThreadPoolExecutor(8) as ex:
            refs = list(ex.map(fresh_interpreter_reference, chunks))
        n = 0
        for ref in refs:
            for k, fresh in ref.items():
                cfg = json.loads(k)
                here = run_history(cfg, observe=True)[0]
                fresh = [(a, tuple(b)) for a, b in fresh]
                n += 1
                d = diff(here, fresh)
                if d:
                    st.violation(
                        {
                            "signature": {"kind": "differs_from_fresh_interpreter", "after_op": cfg[-1]},
                            "what": f"after {cfg}: {d[0][0]} = {d[0][1]} but a fresh interpreter gives {d[0][2]}"[:500],
                            "history": cfg,
                        }
                    )
        st.count("fresh_interpreter_references", n)
    except Exception:
        import traceback

        st.violation({"signature": {"kind": "harness_error"}, "harness_error": True, "what": "fresh interpreter reference failed", "traceback": traceback.format_exc()[-2000:]})
    st.counters["evaluations"] = st.counters.get("histories", 0)
    return infra.finish(
        PROP,
        tier,
        st,
        t0,
        rule=RULE,
        mc_keys={
            "states": max(1, len(st.sets.get("configs", ()))),
            "transitions": max(1, int(st.counters.get("transitions", 0))),
            "traces_validated_against_impl": int(st.counters.get("histories", 0)),
            "exhaustive": True,
            "bounds": {"depth": 2 if tier == "quick" else "2 (all) + 3 (same-family triples) + obs/op interleavings", "alphabet": ALPHABET, "observations_per_sweep": len(observations(fresh_world()))},
        },
        assumptions=[
            "methods explicitly obtained before a change are exempt (the sweep always re-obtains them)",
            "a fresh world = new classes + default settings + cache.reset(); registries keyed by the old classes are unreachable",
        ],
    )


def replay(path: str) -> int:
    v = json.load(open(path))
    st = infra.Stats()
    if "pair" in v:
        i, j = v["pair"]
        m = fresh_world()
        sweep(m, i)
        got = sweep(m, j)[0]
        m2 = fresh_world()
        alone = sweep(m2, j)[0]
        print("after:", got, "alone:", alone)
        if got != alone:
            print(f"VIOLATION property=C09 replay={path}")
            return 1
        return 0
    check_history(v["history"], st, {})
    for x in st.violations:
        print(f"VIOLATION property=C09 replay={path}")
        print(" ", x["what"])
    return 1 if st.violations else 0
