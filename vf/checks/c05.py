"""C05 — round trip: deserialize after serialize is the identity on values (bijective fragment).
E1 with a relational oracle on the real code (model values only provide the value space)."""
from __future__ import annotations

import itertools
import json
import math
from typing import Any, List, Optional

from .. import infra
from ..data import enumerate_data, skeletons
from ..grammar import gen_types, well_formed
from ..realize import PRELUDE, exec_source
from ..refmodel.deser import UNSPEC, Ctx, conform
from ..tast import AnyT, Obj, short, walk
from ..values import match
from . import deser_common as dc
from .c04 import build_value, values_of

import apischema
from apischema import ValidationError, deserialize, serialize

PROP = "C05"
RULE = (
    "bijective fragment of the grammar (shapes with asymmetric skip, InitVar, init=False, serialized methods or "
    "serialization_if are excluded) x every model-built value x aliaser in {identity, camelCase, custom} x "
    "additional_properties: deserialize(T, serialize(T, v)) must be the typed value v (classes compared at every position), "
    "also through json.dumps/json.loads; dually every accepted datum d of the C01 space (k<=1): serialize(T, deserialize(T, d)) "
    "contains d (modulo order at set positions and int/float at float positions) and re-deserializes to an equal value. "
    "Standard-library converted types (UUID, date, datetime, time, Decimal, bytes, Path, ip addresses / interfaces / networks, "
    "Pattern, deque) and discriminated unions are enumerated from a table of sample values in 6 contexts. "
    "distinct_nontrivial counts distinct (ctor-pair shape, options, direction, value/datum index) tuples."
)

# asymmetric by construction: skip / InitVar / init=False / serialized methods / conditional skip;
# constraints that bear on the *input* (uniqueItems on data that differ only by defaulted keys,
# maxProperties smaller than the number of fields); a str value under Union[Sequence[...], str]
NON_BIJECTIVE = ("skip_variants", "initvar", "init_false", "ser_methods", "generic_ser_method", "dep_req_undefined", "ser_override", "ser_rec_method", "ser_if", "obj_cons", "con_list", "union_str[seq", "fbod_field", "inherit_post_init", "rec_cons", "custom_init")


def bijective(label: str) -> bool:
    return not any(n in label for n in NON_BIJECTIVE)


def _unset_required(v: Any, ctx: Ctx) -> bool:
    """a required field dropped by unset-tracking cannot come back: outside the round-trip fragment"""
    from ..refmodel.deser import VAlts, VObj, all_fields

    if isinstance(v, VAlts):
        v = v.first
    if isinstance(v, VObj):
        ob = ctx.env.get(v.cls)
        if ob is not None and ob.fields_set and v.present is not None:
            if any(not f.optional and f.name in v.fields and f.name not in v.present for f in all_fields(ob, ctx)):
                return True
        return any(_unset_required(x, ctx) for x in v.fields.values())
    if isinstance(v, (list, tuple, set, frozenset)):
        return any(_unset_required(x, ctx) for x in v)
    if isinstance(v, dict):
        return any(_unset_required(x, ctx) for x in v.values())
    return False


def contains(d: Any, s: Any) -> Optional[str]:
    """s is d completed with defaults: every key / element of d is in s"""
    if isinstance(d, dict):
        if type(s) is not dict:
            return f"expected object, got {s!r}"
        for k, v in d.items():
            if k not in s:
                return f"key {k!r} lost"
            r = contains(v, s[k])
            if r:
                return f"[{k!r}]: {r}"
        return None
    if isinstance(d, list):
        if type(s) is not list or len(s) != len(d):
            # sets drop duplicates
            if type(s) is list and len(s) < len(d) and all(any(contains(x, y) is None for y in s) for x in d):
                return None
            return f"expected {d!r}, got {s!r}"
        if all(contains(x, y) is None for x, y in zip(d, s)):
            return None
        rest = list(s)
        for x in d:
            for i, y in enumerate(rest):
                if contains(x, y) is None:
                    del rest[i]
                    break
            else:
                return f"element {x!r} lost"
        return None
    if isinstance(d, bool) or isinstance(s, bool):
        return None if d is s else f"expected {d!r}, got {s!r}"
    if isinstance(d, (int, float)) and isinstance(s, (int, float)):
        return None if (d == s or (d != d and s != s)) else f"expected {d!r}, got {s!r}"
    return None if (type(d) is type(s) and d == s) else f"expected {d!r}, got {s!r}"


def run_type(i, label, spec, tier, st):
    env = dc.build_env(spec)
    ctx0 = Ctx(env=env)
    if well_formed(spec, ctx0) or not bijective(label):
        return
    lvl = dc.level_of(label)
    case = dc.Case(label, spec)
    try:
        rz = case.realize()
    except Exception as e:
        st.violation({"label": label, "signature": {"kind": "realize_error"}, "what": repr(e)[:300], "harness_error": True, "traceback": repr(e)})
        return
    st.count("types")
    if i % 101 == 0:
        st.sample({"type": short(spec), "label": label})
    has_any = any(isinstance(x, AnyT) for x in walk(spec))
    vals = [v for v in values_of(spec, ctx0) if not _unset_required(v, ctx0)]
    opts = [(ap, al) for ap in (False, True) for al in ("id", "camel", "custom")] if lvl <= 1 else [(False, "id"), (True, "camel"), (False, "custom")]
    for ap, al in opts:
        ctx = case.ctx(ap, False, al)
        kw = dict(additional_properties=ap, aliaser=dc.IMPL_ALIASERS[al])
        try:
            dm = apischema.deserialization_method(rz.tp, **kw)
            sm = apischema.serialization_method(rz.tp, **kw)
            # the same type compiled once more in the same cache lifetime, under a layer of constraints no value reaches
            dm2 = apischema.deserialization_method(rz.tp, schema=HARMLESS, **kw)
        except Exception:
            st.count("compile_error(reported by C01/C04)")
            return
        # values -> data -> values
        for vi, v in enumerate(vals):
            try:
                real = build_value(spec, v, rz.module, ctx0)
            except Exception:
                st.count("value_not_buildable")
                continue
            if ap and isinstance(real, dict) and isinstance(spec, Obj) and spec.kind == "typeddict" and "zz" not in real:
                real = dict(real, zz=1)  # a TypedDict value keeps its additional properties
            base = {"label": label, "type": short(spec), "options": [ap, al], "value": repr(real)[:300]}
            try:
                data = sm(real)
                data2 = json.loads(json.dumps(data))
            except Exception as e:
                st.violation(dict(base, signature={"kind": "serialize_exception", "exc": type(e).__name__, "shape": dc.shape_of(label)}, what=f"serialize / json.dumps raised {e!r}"[:300], source=rz.source))
                continue
            st.case(dc.shape_of(label), (ap, al), "v->d->v", vi)
            for tag, dd in (("direct", data), ("json", data2), ("second_method", data2)):
                try:
                    back = (dm2 if tag == "second_method" else dm)(dd)
                except ValidationError as e:
                    st.violation(dict(base, signature={"kind": "roundtrip_rejected", "shape": dc.shape_of(label), "via": tag}, what=f"deserialize(serialize(v)) rejected: {data!r} -> {dc.impl_errors(e)[:3]}"[:400], source=rz.source))
                    break
                except Exception as e:
                    st.violation(dict(base, signature={"kind": "roundtrip_exception", "exc": type(e).__name__, "shape": dc.shape_of(label)}, what=f"deserialize(serialize(v)) raised {e!r}"[:300], source=rz.source))
                    break
                # the value serialized may have unset / Undefined / None variants that legitimately come
                # back as the default: compare with the model value of the serialized data
                ref = conform(spec, dd, ctx)
                if ref is UNSPEC or not ref.ok:
                    st.count("model_does_not_accept_serialized_data(C01/C04 scope)")
                    break
                r = match(ref.value, back, rz.module)
                same = _eq(back, real)
                if r is not None:
                    st.violation(dict(base, signature={"kind": "roundtrip_typed_image", "shape": dc.shape_of(label), "via": tag}, what=f"deserialize(serialize(v)) = {back!r}: {r}"[:400], source=rz.source))
                    break
                if not same and not has_any and v is vals[0]:
                    # the first value of every type is the plain typed image of the minimal skeleton: must be identical
                    st.violation(dict(base, signature={"kind": "roundtrip_not_identity", "shape": dc.shape_of(label), "via": tag}, what=f"deserialize(serialize(v)) = {back!r} != v = {real!r} (data {data!r})"[:400], source=rz.source))
                    break
        # data -> value -> data
        td_names = set()
        if ap and al != "id" and "typeddict" in label:
            # an additional key equal to a field *name* collides inside the TypedDict (undecided by the docs)
            td_names = {f.name for x in walk(spec) if isinstance(x, Obj) and x.kind == "typeddict" for f in x.fields}
        for dev, d in enumerate_data(spec, ctx, k=1, wide=ap and "typeddict" in label):
            if td_names and _has_key(d, td_names):
                continue
            kind, out = dc.run_impl(dm, d)
            if kind != "ok":
                continue
            base = {"label": label, "type": short(spec), "options": [ap, al], "datum": repr(d)}
            try:
                s = sm(out)
            except Exception as e:
                st.violation(dict(base, signature={"kind": "serialize_exception", "exc": type(e).__name__, "shape": dc.shape_of(label)}, what=f"serialize(deserialize(d)) raised {e!r}"[:300], source=rz.source))
                continue
            st.case(dc.shape_of(label), (ap, al), "d->v->d", repr(d)[:60])
            if not has_any:
                r = contains(d, s)
                if r is not None and not ap:
                    st.violation(dict(base, signature={"kind": "data_not_preserved", "shape": dc.shape_of(label)}, what=f"serialize(deserialize(d)) = {s!r} does not contain d = {d!r}: {r}"[:400], source=rz.source))
                    continue
            k2, out2 = dc.run_impl(dm, s)
            if k2 != "ok" or not _eq(out2, out):
                st.violation(dict(base, signature={"kind": "redeserialize_differs", "shape": dc.shape_of(label)}, what=f"d={d!r} -> {out!r} -> {s!r} -> {out2 if k2 == 'ok' else dc.impl_errors(out2)[:2]!r}"[:400], source=rz.source))
    case.drop()
    dc.periodic_reset(i)


HARMLESS = apischema.schema(max=10**12, max_len=10**6, max_items=10**6, max_props=10**6)


def _has_key(d, names) -> bool:
    if isinstance(d, dict):
        return any(k in names for k in d) or any(_has_key(v, names) for v in d.values())
    if isinstance(d, list):
        return any(_has_key(v, names) for v in d)
    return False


def _eq(a, b) -> bool:
    try:
        if type(a) is not type(b):
            return False
        if isinstance(a, float):
            return a == b or (math.isnan(a) and math.isnan(b))
        return bool(a == b) or repr(a) == repr(b)
    except Exception:
        return False


STD_SRC = '''
import uuid, datetime, decimal, pathlib, ipaddress, re, collections
from apischema import discriminator
SAMPLES = [
    (uuid.UUID, [uuid.UUID("12345678-1234-5678-1234-567812345678"), uuid.UUID(int=0)]),
    (datetime.date, [datetime.date(2020, 1, 2), datetime.date(1, 1, 1), datetime.date(9999, 12, 31)]),
    (datetime.datetime, [datetime.datetime(2020, 1, 2, 3, 4, 5), datetime.datetime(2020, 1, 2, 3, 4, 5, 678901),
                         datetime.datetime(2020, 1, 2, 3, 4, 5, tzinfo=datetime.timezone.utc),
                         datetime.datetime(2020, 1, 2, tzinfo=datetime.timezone(datetime.timedelta(hours=-5, minutes=-30)))]),
    (datetime.time, [datetime.time(3, 4, 5), datetime.time(0, 0), datetime.time(23, 59, 59, 999999), datetime.time(1, 2, tzinfo=datetime.timezone.utc)]),
    (decimal.Decimal, [decimal.Decimal("1.5"), decimal.Decimal("0"), decimal.Decimal("-2.25"), decimal.Decimal("1E+2"), decimal.Decimal("0.1"), decimal.Decimal("1.10")]),
    (bytes, [b"", b"abc", bytes(range(256))]),
    (pathlib.Path, [pathlib.Path("/a/b"), pathlib.Path("rel/x.txt"), pathlib.Path(".")]),
    (ipaddress.IPv4Address, [ipaddress.IPv4Address("127.0.0.1"), ipaddress.IPv4Address(0)]),
    (ipaddress.IPv6Address, [ipaddress.IPv6Address("::1"), ipaddress.IPv6Address("2001:db8::ff00:42:8329")]),
    (ipaddress.IPv4Interface, [ipaddress.IPv4Interface("192.168.1.7/24")]),
    (ipaddress.IPv4Network, [ipaddress.IPv4Network("10.0.0.0/8")]),
    (ipaddress.IPv6Interface, [ipaddress.IPv6Interface("::1/128")]),
    (ipaddress.IPv6Network, [ipaddress.IPv6Network("2001:db8::/32")]),
    (re.Pattern, [re.compile("^a.*$"), re.compile("")]),
    (collections.deque, [collections.deque([1, 2]), collections.deque()]),
]
@dataclass
class Cat:
    x: int = 0
@dataclass
class Dog:
    x: int = 0
    type: Literal["dog", "hound"] = "dog"
Disc = Annotated[Union[Cat, Dog], discriminator("type")]
@discriminator("kind")
class Pet: pass
@dataclass
class Kitten(Pet):
    n: int = 0
@dataclass
class Puppy(Pet):
    n: int = 1
class Hue(Enum):
    RED = "r"
    BLUE = "b"
class Lvl(Enum):
    LOW = 1
    HIGH = 2
@dataclass
class Shipment:
    items: collections.deque = field(default_factory=collections.deque)
# literals of enum members (serialized by value), alone and mixed with plain values; typed deques whose items need their type
DISC_SAMPLES = [(Literal[Hue.RED, Hue.BLUE], [Hue.RED, Hue.BLUE]), (Literal[Lvl.LOW, "auto"], [Lvl.LOW, "auto"]),
                (typing.Deque[Hue], [collections.deque([Hue.RED, Hue.BLUE])]), (typing.Deque[Dog], [collections.deque([Dog(1), Dog(2, "hound")])]),
                (Disc, [Cat(1), Dog(2), Dog(3, "hound")]), (Pet, [Kitten(1), Puppy(2)]), (Union[Kitten, Puppy], [Kitten(), Puppy()]), (List[Pet], [[Kitten(1), Puppy(2)]])]
def contexts(tp):
    Holder = dataclasses.make_dataclass("Holder", [("f", tp), ("g", Optional[tp], None)])
    return [("T", tp, lambda v: v), ("List[T]", List[tp], lambda v: [v, v]), ("Optional[T]", Optional[tp], lambda v: v),
            ("Dict[str,T]", Dict[str, tp], lambda v: {"k": v}), ("Tuple[T,int]", Tuple[tp, int], lambda v: (v, 1)),
            ("dataclass", Holder, lambda v: Holder(v, v))]
'''


def run_std(st: infra.Stats):
    mod = exec_source(PRELUDE + STD_SRC)
    for tp, samples in list(mod.SAMPLES) + list(mod.DISC_SAMPLES):
        tname = getattr(tp, "__name__", repr(tp))
        for cname, ctp, wrap in mod.contexts(tp):
            if tp is mod.SAMPLES[-1][0] and cname != "T":
                if cname != "T":
                    pass
            for al in ("id", "camel", "custom"):
                kw = dict(aliaser=dc.IMPL_ALIASERS[al])
                for si, s in enumerate(samples):
                    v = wrap(s)
                    st.case("std", tname, cname, al, si)
                    base = {"label": f"std:{tname}:{cname}", "value": repr(v)[:200]}
                    try:
                        data = serialize(ctp, v, **kw)
                        data2 = json.loads(json.dumps(data))
                        back = deserialize(ctp, data2, **kw)
                        again = serialize(ctp, back, **kw)
                    except Exception as e:
                        st.violation(dict(base, signature={"kind": "std_exception", "type": tname, "exc": type(e).__name__}, what=f"{tname} in {cname}: {e!r}"[:300]))
                        continue
                    ok = _eq(back, v) and _classes(back, v)
                    if not ok:
                        exact = True
                        if tname == "Decimal":
                            import decimal

                            exact = all(decimal.Decimal(float(x)) == x for x in samples[si : si + 1])
                        st.violation(
                            dict(
                                base,
                                signature={"kind": "std_roundtrip", "type": tname, "context": cname, "float_exact": exact},
                                what=f"{tname} in {cname}: {v!r} -> {data!r} -> {back!r}"[:300],
                            )
                        )
                    elif again != data:
                        st.violation(dict(base, signature={"kind": "std_reserialize", "type": tname}, what=f"{tname} in {cname}: data {data!r} re-serializes to {again!r}"[:300]))
    st.count("std_types", len(mod.SAMPLES) + len(mod.DISC_SAMPLES))


def _classes(a, b) -> bool:
    if type(a) is not type(b):
        return False
    if isinstance(a, (list, tuple)):
        return len(a) == len(b) and all(_classes(x, y) for x, y in zip(a, b))
    if isinstance(a, dict):
        return all(_classes(a[k], b[k]) for k in a if k in b)
    return True


def work(tier, widx, nworkers, st, extra):
    import os

    if widx == 0 and not os.environ.get("VERIF_ONLY"):
        run_std(st)
    for i, label, spec in dc.my_types(tier, widx, nworkers):
        run_type(i, label, spec, tier, st)


def main(tier: str, t0: float) -> int:
    st = infra.run_pool("vf.checks.c05", tier)
    return infra.finish(
        PROP,
        tier,
        st,
        t0,
        rule=RULE,
        coverage_extra={"exhaustive": True, "excluded_shapes": list(NON_BIJECTIVE), "bounds": {"nesting": 2, "deviations": 1}},
        assumptions=["values are built from the reference model's typed images; the oracle itself is relational (real code on both sides)"],
    )


def replay(path: str) -> int:
    v = json.load(open(path))
    st = infra.Stats()
    if v["label"].startswith("std:"):
        run_std(st)
    else:
        for lab, spec in gen_types("thorough"):
            if lab == v["label"]:
                run_type(1, lab, spec, "thorough", st)
                break
    hits = [x for x in st.violations if x.get("signature") == v.get("signature")]
    for x in hits[:3]:
        print(f"VIOLATION property=C05 replay={path}")
        print(" ", x["what"])
    return 1 if hits else 0
