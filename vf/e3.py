"""E3 — stateless, preemption-bounded exploration of thread schedules of the real code.

Scheduling points: sys.monitoring LINE (optionally INSTRUCTION) events enabled *locally* on chosen
code objects of apischema.  Exactly one worker thread runs at any time (baton of semaphores); at a
point the scheduler either continues the running thread (choice 0) or hands over to another
enabled thread (a preemption).  All schedules with <= bound preemptions are enumerated by DFS over
choice prefixes; every replayed prefix is checked entry by entry against its parent's trace."""
from __future__ import annotations

import sys
import threading
import time
import types
from typing import Any, Callable, Dict, List, Optional, Sequence, Tuple

mon = sys.monitoring
TOOL = 4
_installed = False
_CUR: List[Optional["Sched"]] = [None]


class Abort(BaseException):
    pass


def norm(s: str) -> str:
    """drop the per-world synthetic module number from messages"""
    import re

    return re.sub(r"vfgen_\d+", "vfgen", s)


class Divergence(Exception):
    pass


def code_objects(obj, seen=None) -> List[types.CodeType]:
    seen = seen if seen is not None else set()
    out: List[types.CodeType] = []

    def walk(co):
        if co in seen:
            return
        seen.add(co)
        out.append(co)
        for c in co.co_consts:
            if isinstance(c, types.CodeType):
                walk(c)

    def walk_func(f):
        f = getattr(f, "__func__", f)
        while hasattr(f, "__wrapped__"):
            f = f.__wrapped__
        if isinstance(f, types.FunctionType):
            walk(f.__code__)

    if isinstance(obj, types.ModuleType):
        for v in list(vars(obj).values()):
            if isinstance(v, types.FunctionType) and v.__module__ == obj.__name__:
                walk(v.__code__)
            elif isinstance(v, type) and v.__module__ == obj.__name__:
                for m in list(vars(v).values()):
                    if isinstance(m, property):
                        for g in (m.fget, m.fset):
                            if g is not None:
                                walk_func(g)
                    else:
                        walk_func(m)
            elif hasattr(v, "__wrapped__"):
                w = v
                while hasattr(w, "__wrapped__"):
                    w = w.__wrapped__
                if isinstance(w, types.FunctionType) and w.__module__ == obj.__name__:
                    walk(w.__code__)
    elif isinstance(obj, type):
        for m in list(vars(obj).values()):
            walk_func(m)
    else:
        walk_func(obj)
    return out


def _on_event(code, arg):
    s = _CUR[0]
    if s is not None:
        s.point(code, arg)


def install(line_codes: Sequence[types.CodeType], ins_codes: Sequence[types.CodeType] = ()):
    global _installed
    if not _installed:
        mon.use_tool_id(TOOL, "vf-e3")
        mon.register_callback(TOOL, mon.events.LINE, _on_event)
        mon.register_callback(TOOL, mon.events.INSTRUCTION, _on_event)
        _installed = True
    for co in line_codes:
        mon.set_local_events(TOOL, co, mon.events.LINE)
    for co in ins_codes:
        mon.set_local_events(TOOL, co, mon.events.INSTRUCTION)


class Sched:
    def __init__(self, n: int, choices: Sequence[int], parent_trace: Optional[list] = None):
        self.n = n
        self.sems = [threading.Semaphore(0) for _ in range(n)]
        self.done = [False] * n
        self.choices = list(choices)
        self.nchoices = len(self.choices)
        self.ndone = 0
        self.parent = parent_trace
        self.trace: List[tuple] = []  # (thread, n_enabled, choice, running_still_enabled, loc)
        self.main = threading.Semaphore(0)
        self.by_ident: Dict[int, int] = {}
        self.aborted: Optional[str] = None

    def enabled(self, cur):
        en = [i for i in range(self.n) if not self.done[i]]
        if cur in en:
            en.remove(cur)
            en.insert(0, cur)
        return en

    def pick(self, cur, loc):
        en = self.enabled(cur)
        if not en:
            self.main.release()
            return None
        k = len(self.trace)
        c = self.choices[k] if k < len(self.choices) else 0
        if c >= len(en):
            self.abort(f"replay divergence at {k}: choice {c} of {len(en)} enabled")
            raise Abort()
        entry = (cur, len(en), c, cur is not None and not self.done[cur], loc)
        if self.parent is not None and k < len(self.choices) and k < len(self.parent):
            p = self.parent[k]
            if (p[0], p[1], p[3], p[4]) != (entry[0], entry[1], entry[3], entry[4]):
                self.abort(f"replay divergence at {k}: {entry} != parent {p}")
                raise Abort()
        self.trace.append(entry)
        return en[c]

    def abort(self, why):
        if self.aborted is None:
            self.aborted = why
        for s in self.sems:
            s.release()
        self.main.release()

    def point(self, code, arg):
        me = self.by_ident.get(threading.get_ident())
        if me is None or self.aborted:
            return
        k = len(self.trace)
        if k >= self.nchoices:
            # fast path: beyond the prefix the running thread continues (choice 0)
            self.trace.append((me, self.n - self.ndone, 0, True, (code.co_name, arg)))
            return
        nxt = self.pick(me, (code.co_name, arg))
        if nxt != me:
            self.sems[nxt].release()
            self.sems[me].acquire()
            if self.aborted:
                raise Abort()

    def finish(self, me):
        self.done[me] = True
        self.ndone += 1
        if self.aborted:
            return
        nxt = self.pick(me, ("<finish>", 0))
        if nxt is not None:
            self.sems[nxt].release()


def run_schedule(bodies: Sequence[Callable[[], Any]], choices: Sequence[int], parent_trace=None, horizon: float = 30.0):
    """one execution under the given choice prefix (then choice 0 everywhere).
    Returns (results, trace snapshot, aborted reason)"""
    s = Sched(len(bodies), choices, parent_trace)
    results: List[Any] = [None] * len(bodies)

    def mk(i, body):
        def target():
            s.by_ident[threading.get_ident()] = i
            s.sems[i].acquire()
            try:
                if not s.aborted:
                    try:
                        results[i] = ("ok", body())
                    except Abort:
                        results[i] = ("abort",)
                    except BaseException as e:  # noqa
                        results[i] = ("exc", type(e).__name__, norm(str(e))[:80])
            finally:
                try:
                    s.finish(i)
                except Abort:
                    pass

        return threading.Thread(target=target, daemon=True)

    ths = [mk(i, b) for i, b in enumerate(bodies)]
    for t in ths:
        t.start()
    _CUR[0] = s
    try:
        first = s.pick(None, ("<start>", 0))
        s.sems[first].release()
        ok = s.main.acquire(timeout=horizon)
    except Abort:
        ok = True
    finally:
        _CUR[0] = None
    if not ok:
        s.abort("watchdog: no completion within horizon (deadlock or livelock)")
    for t in ths:
        t.join(5)
    alive = [t for t in ths if t.is_alive()]
    if alive and not s.aborted:
        s.aborted = "thread did not terminate"
    return results, list(s.trace), s.aborted  # snapshot only after all workers are joined


class Explorer:
    """DFS over choice prefixes with a preemption bound"""

    def __init__(self, make_world: Callable[[], Tuple[Sequence[Callable], Callable[[], Any]]], bound: int, check: Callable, max_schedules: Optional[int] = None):
        self.make_world = make_world
        self.bound = bound
        self.check = check  # check(results, followup_value, prefix, trace) -> Optional[violation dict]
        self.schedules = 0
        self.max_points = 0
        self.outcomes: Dict[Any, int] = {}
        self.violations: List[dict] = []
        self.harness_errors: List[str] = []
        self.max_schedules = max_schedules
        self.capped = False
        self.transitions = 0

    def execute(self, prefix, parent_trace=None):
        bodies, followup = self.make_world()
        results, trace, aborted = run_schedule(bodies, prefix, parent_trace)
        fv = None
        if not aborted:
            try:
                fv = ("ok", followup())
            except BaseException as e:  # noqa
                fv = ("exc", type(e).__name__, norm(str(e))[:80])
        return results, trace, aborted, fv

    def explore(self, prefix: List[int], used: int, parent_trace=None):
        if self.max_schedules is not None and self.schedules >= self.max_schedules:
            self.capped = True
            return
        trace = self._visit(prefix, used, parent_trace)
        if trace is None:
            return
        for i in range(len(prefix), len(trace)):
            cur, n_en, c, cur_enabled, loc = trace[i]
            for alt in range(1, n_en):
                ncost = used + (1 if cur_enabled else 0)
                if ncost > self.bound:
                    continue
                self.explore([e[2] for e in trace[:i]] + [alt], ncost, trace)

    # ---- work splitting: the zero-cost part of the tree is expanded by one process, the
    # subtrees below every costly (preempting) branch are independent tasks
    def _visit(self, prefix, used, parent_trace):
        """execute + check one schedule; returns its trace (None when aborted)"""
        results, trace, aborted, fv = self.execute(prefix, parent_trace)
        self.schedules += 1
        self.transitions += len(trace)
        self.max_points = max(self.max_points, len(trace))
        if aborted:
            self.harness_errors.append(f"{aborted} (prefix len {len(prefix)})")
            return None
        v = self.check(results, fv, prefix, trace)
        key = repr((results, fv))
        self.outcomes[key] = self.outcomes.get(key, 0) + 1
        if v is not None:
            r2, t2, a2, f2 = self.execute(prefix, trace)
            r3, t3, a3, f3 = self.execute(prefix, trace)
            if a2 or a3 or repr((r2, f2)) != key or repr((r3, f3)) != key or len(t2) != len(trace) or len(t3) != len(trace):
                self.harness_errors.append(f"non-deterministic replay of failing schedule (prefix len {len(prefix)}): {key} vs {repr((r2, f2))}")
            else:
                v["schedule"] = list(prefix)
                v["preemptions"] = used
                v["switch_points"] = [
                    {"index": i, "thread": e[0], "to_choice": e[2], "loc": list(e[4])} for i, e in enumerate(trace) if e[2] != 0 and e[3]
                ]
                self.violations.append(v)
        return trace

    def expand_free(self, chunk: int = 24) -> List[tuple]:
        """explore every schedule reachable without preemption; return tasks
        (prefix, used, [(i, alt), ...]) for the costly branches"""
        tasks: List[tuple] = []

        def rec(prefix, used, parent_trace):
            trace = self._visit(prefix, used, parent_trace)
            if trace is None:
                return
            costly = []
            for i in range(len(prefix), len(trace)):
                cur, n_en, c, cur_enabled, loc = trace[i]
                for alt in range(1, n_en):
                    if not cur_enabled:
                        rec([e[2] for e in trace[:i]] + [alt], used, trace)
                    elif used + 1 <= self.bound:
                        costly.append((i, alt))
            for j in range(0, len(costly), chunk):
                tasks.append((list(prefix), used, costly[j : j + chunk]))

        rec([], 0, None)
        return tasks

    def run_task(self, task):
        prefix, used, children = task
        _, trace, aborted, _ = self.execute(prefix, None)
        if aborted:
            self.harness_errors.append(f"{aborted} (task parent, prefix len {len(prefix)})")
            return
        for i, alt in children:
            if i >= len(trace) or alt >= trace[i][1] or not trace[i][3]:
                self.harness_errors.append(f"task parent trace diverged at {i}")
                return
            self.explore([e[2] for e in trace[:i]] + [alt], used + 1, trace)
