"""C11 — a field has one external name across every view.
E1 on generated source: field name x alias x override x class aliaser x dynamic aliaser x route;
expected name = dyn(class_aliaser(alias or name)); every view must use exactly it."""
from __future__ import annotations

import itertools
import json
import re
import sys
from typing import Annotated, Any, Dict, List, Optional, Tuple

from .. import infra
from .. import world
from ..realize import PRELUDE, exec_source

import apischema
from apischema import ValidationError, deserialize, serialize, settings
from apischema.json_schema import deserialization_schema, serialization_schema
from apischema.utils import to_camel_case

PROP = "C11"
RULE = (
    "object types whose tested field draws (name, alias) from {a_b, aB, a_b1} x {no alias, x_y, xY, class, $ref, "
    "'with space'} x alias override in {True, False} x class aliaser in {none, upper, prefix} x dynamic aliaser in "
    "{identity, camelCase, custom} x route in {parameter, settings.aliaser} x class in {plain, Generic reached through its "
    "specialisation C[int]}; shapes: plain, nested, flattened, with "
    "dependent_required, with a field validator and a validator yielding get_alias(self).f. Expected external name = "
    "dyn(class_aliaser(alias or name)) (class aliaser skipped when override=False). Views compared: key consumed by "
    "deserialize (every other candidate spelling is rejected with missing/unexpected at the right keys), key emitted by "
    "serialize (also under PassThroughOptions(dataclasses=True), a passed-through instance being emitted under its field names), properties / required / dependentRequired of both schemas, loc of structural / field-validator / yielded "
    "errors (plain, nested, flattened), GraphQL output field, input field and argument names and the loc of a GraphQL "
    "argument error (names that are GraphQL identifiers); the plain / nested / flattened data again under one more layer of "
    "constraints (call-level schema=, Annotated item of a list) within the same cache lifetime; a class aliaser registered, then replaced, on a class every view of which is already warm. distinct_nontrivial counts distinct (configuration, view)."
)

NAMES = ["a_b", "aB", "a_b1"]
ALIASES = [None, "x_y", "xY", "class", "$ref", "with space"]
CLASS_AL = {None: None, "upper": lambda s: s.upper(), "prefix": lambda s: "p_" + s}


def dyn_id(s):
    return s


def dyn_custom(s):
    return "x_" + s


DYN = {"id": dyn_id, "camel": to_camel_case, "custom": dyn_custom}
GQL_NAME = re.compile(r"^[_A-Za-z][_0-9A-Za-z]*$")


def class_source(k: int, fname: str, alias: Optional[str], override: bool, cal: Optional[str], generic: bool = False, annotated: bool = False) -> str:
    md = []
    if alias is not None:
        md.append(f"alias({alias!r}" + ("" if override else ", override=False") + ")")
    elif not override:
        md.append("alias(override=False)")
    mds = " | ".join(md)
    deco = f"@alias(_{cal})\n" if cal else ""
    fdecl = f"    {fname}: int = field(" + (f"metadata={mds}" if mds else "") + ")"
    if annotated and mds:
        # the alias carried by the annotation instead of the field metadata: the same external name
        fdecl = f"    {fname}: Annotated[int, {mds}] = field()"
    gbase = "(Generic[_TG])" if generic else ""
    ct = f"C{k}[int]" if generic else f"C{k}"
    return f'''
{deco}@dataclass
class C{k}{gbase}:
{fdecl}
    other: int = field(default=0)
    @validator({fname})
    def field_validator(self):
        _ = self.{fname}
        if SWITCH.get("field_validator"):
            raise ValidationError("field validator failed")
    @validator
    def yielding(self):
        _ = self.{fname}
        if SWITCH.get("yielding"):
            yield get_alias(self).{fname}, "yielded"
    @validator(other)
    def other_validator(self):
        _ = self.other
        if SWITCH.get("other_validator"):
            raise ValidationError("other failed")
    @validator
    def other_yielding(self):
        _ = self.other
        if SWITCH.get("other_yielding"):
            yield get_alias(self).other, "other yielded"
dependent_required({{"other": [{fname!r}]}}, owner=C{k})
{deco}@dataclass
class D{k}:
    {fname}: int = field(default=0{", metadata=" + mds if mds else ""})
    dep: int = 0
dependent_required({{{fname!r}: ["dep"]}}, owner=D{k})
{deco}@dataclass
class G{k}:
    {fname}: int = field(default=0{", metadata=" + mds if mds else ""})
    dep: int = 0
    free: int = 0
dependent_required([{fname!r}, "dep"], owner=G{k})   # the documented shortcut for a bidirectional dependency
CT{k} = {ct}
@dataclass
class H{k}:
    inner: {ct}
@dataclass
class HD{k}:
    inner: {ct} = field(default_factory=lambda: C{k}(1))   # the default appears, serialized, in the schema
@dataclass
class F{k}:
    z: int
    inner: {ct} = field(metadata=flatten)
def q{k}() -> C{k}:
    return C{k}(7)
def m{k}(arg: C{k}) -> int:
    return arg.{fname}
def a{k}(p_q: Annotated[int, validators_metadata(_arg_check){", " + md[0] if alias is not None else ""}] = 0) -> int:
    return p_q
def n{k}(p_q: Annotated[int, validators_metadata(_arg_check){", " + md[0] if alias is not None else ""}] = None) -> Optional[int]:
    return p_q
'''


PRE = '''
from apischema.objects import get_alias
_TG = TypeVar("_TG")
def _arg_check(v):
    if v == 13:
        raise ValidationError("unlucky")
'''


def expected_name(fname, alias, override, cal, dyn) -> str:
    n = alias if alias is not None else fname
    if cal and override:
        n = CLASS_AL[cal](n)
    return DYN[dyn](n)


def candidates(fname, alias, cal) -> List[str]:
    base = {fname}
    if alias is not None:
        base.add(alias)
    out = set(base)
    for b in list(base):
        for c in CLASS_AL.values():
            if c:
                out.add(c(b))
    for b in list(out):
        for d in DYN.values():
            out.add(d(b))
    return sorted(out)


def locs(e: ValidationError) -> List[Tuple[tuple, str]]:
    return sorted((tuple(x["loc"]), x["err"]) for x in e.errors)


def check_config(mod, k, cfg, st: infra.Stats):
    fname, alias, override, cal, *gen = cfg
    generic = bool(gen and gen[0])
    # a generic class is reached through its specialisation C[int], as generic classes are used
    C, H, Fl = getattr(mod, f"CT{k}"), getattr(mod, f"H{k}"), getattr(mod, f"F{k}")
    Craw = getattr(mod, f"C{k}")
    for dyn, route in itertools.product(DYN, ("param", "settings")):
        ext = expected_name(fname, alias, override, cal, dyn)
        other_ext = DYN[dyn](CLASS_AL[cal]("other") if cal else "other")
        inner_ext = DYN[dyn]("inner")
        z_ext = DYN[dyn]("z")
        kw: Dict[str, Any] = {}
        if route == "param":
            kw["aliaser"] = DYN[dyn]
        else:
            settings.aliaser = DYN[dyn]
        base = {"config": repr(cfg), "dyn": dyn, "route": route, "expected": ext, "k": k}

        def viol(view, what):
            st.violation(dict(base, signature={"kind": "name_mismatch", "view": view, "class_aliaser": bool(cal), "has_alias": alias is not None, "dyn": dyn != "id"}, what=f"{view}: {what} (field {fname!r} alias {alias!r} override={override} class aliaser {cal}, {dyn} via {route}; expected {ext!r})"[:500]))

        try:
            mod.SWITCH.clear()
            st.case(cfg, dyn, route)
            # deserialize consumes ext
            try:
                obj = deserialize(C, {ext: 1}, **kw)
                if getattr(obj, fname) != 1:
                    viol("deserialize", f"value not set: {obj!r}")
            except ValidationError as e:
                viol("deserialize", f"{{{ext!r}: 1}} rejected: {locs(e)}")
                obj = Craw(1)
            for cand in candidates(fname, alias, cal):
                if cand == ext or cand == other_ext:
                    continue
                try:
                    r = deserialize(C, {cand: 1}, **kw)
                    viol("deserialize_other_spelling", f"{{{cand!r}: 1}} accepted -> {r!r}")
                except ValidationError as e:
                    L = locs(e)
                    if ((ext,), "missing property") not in L or ((cand,), "unexpected property") not in L:
                        viol("deserialize_other_spelling", f"{{{cand!r}: 1}} rejected with {L}")
            # serialize emits ext
            s = serialize(C, obj, **kw)
            if set(s) != {ext, other_ext}:
                viol("serialize", f"keys {sorted(s)}")
            # the same keys when dataclasses may be passed through to a JSON library emitting them natively (field names)
            import dataclasses as _dc

            from apischema import PassThroughOptions

            for T_, o_, exp_keys in ((C, obj, {ext, other_ext}), (H, H(inner=obj) if hasattr(H, "__dataclass_fields__") and "inner" in H.__dataclass_fields__ else None, {inner_ext})):
                if o_ is None:
                    continue
                pt = serialize(T_, o_, pass_through=PassThroughOptions(dataclasses=True), **kw)
                keys = {f.name for f in _dc.fields(pt)} if _dc.is_dataclass(pt) else set(pt)
                if keys != exp_keys:
                    viol("serialize_pass_through", f"keys {sorted(keys)} emitted for {type(pt).__name__} under PassThroughOptions(dataclasses=True)")
                if T_ is H and not _dc.is_dataclass(pt):
                    inner_v = pt.get(inner_ext)
                    ik = {f.name for f in _dc.fields(inner_v)} if _dc.is_dataclass(inner_v) else set(inner_v or ())
                    if ik != {ext, other_ext}:
                        viol("serialize_pass_through", f"nested keys {sorted(ik)} under PassThroughOptions(dataclasses=True)")
            # schemas
            for sname, fn in (("deserialization_schema", deserialization_schema), ("serialization_schema", serialization_schema)):
                sch = fn(C, **kw)
                if set(sch.get("properties", {})) != {ext, other_ext}:
                    viol(sname + ".properties", f"{sorted(sch.get('properties', {}))}")
                exp_req = [ext] if fn is deserialization_schema else [ext, other_ext]
                if sch.get("required") != exp_req:
                    viol(sname + ".required", f"{sch.get('required')} != {exp_req}")
                dr = sch.get("dependentRequired")
                exp_dr = {other_ext: [ext]}
                if dr != exp_dr:
                    viol(sname + ".dependentRequired", f"{dr} != {exp_dr}")
            # the definitions extracted on their own (OpenAPI components) are the inline ones, names included
            from apischema.json_schema import definitions_schema

            for side, fn in (("deserialization", deserialization_schema), ("serialization", serialization_schema)):
                inline = fn(H, all_refs=True, **kw).get("$defs", {})
                defs = definitions_schema(**{side: [H]}, all_refs=True, **kw)
                if dict(defs) != dict(inline):
                    viol("definitions_schema." + side, f"definitions {json.dumps(defs, sort_keys=True)[:160]} != inline $defs {json.dumps(inline, sort_keys=True)[:160]}")
                for dname, d in defs.items():
                    if dname.startswith(f"C{k}") and set(d.get("properties", {})) != {ext, other_ext}:
                        viol("definitions_schema." + side + ".properties", f"{dname}: {sorted(d.get('properties', {}))}")
                    if dname == f"H{k}" and inner_ext not in d.get("properties", {}):
                        viol("definitions_schema." + side + ".properties", f"{dname}: {sorted(d.get('properties', {}))}")
            # a default value written in a schema is a serialized value: the same names as serialize() gives
            HD = getattr(mod, f"HD{k}")
            for sname, fn in (("deserialization_schema", deserialization_schema),):  # serialization schemas carry no default
                dflt = fn(HD, **kw).get("properties", {}).get(inner_ext, {}).get("default")
                if not isinstance(dflt, dict) or set(dflt) != {ext, other_ext}:
                    viol(sname + ".default", f"default of the field holding the class: {dflt!r}")
            # dependent_required is enforced on, and reported with, the external names
            D = getattr(mod, f"D{k}")
            dep_ext = DYN[dyn](CLASS_AL[cal]("dep") if cal else "dep")
            for datum, ok in (({ext: 1}, False), ({ext: 1, dep_ext: 2}, True), ({}, True), ({dep_ext: 2}, True)):
                try:
                    deserialize(D, datum, **kw)
                    if not ok:
                        viol("dependent_required_enforced", f"{datum} accepted although {ext!r} requires {dep_ext!r}")
                except ValidationError as e:
                    if ok:
                        viol("dependent_required_enforced", f"{datum} rejected: {locs(e)}")
                    elif locs(e) != [((dep_ext,), f"missing property (required by [{ext!r}])")]:
                        viol("dependent_required_loc", f"{datum}: {locs(e)}")
            for sname, fn in (("deserialization_schema", deserialization_schema), ("serialization_schema", serialization_schema)):
                dr = fn(D, **kw).get("dependentRequired")
                if dr != {ext: [dep_ext]}:
                    viol(sname + ".dependentRequired(D)", f"{dr} != {{{ext!r}: [{dep_ext!r}]}}")
            # the group form: each field of the group requires the others
            G = getattr(mod, f"G{k}")
            free_ext = DYN[dyn](CLASS_AL[cal]("free") if cal else "free")
            for datum, missing in (({ext: 1}, dep_ext), ({dep_ext: 2}, ext), ({ext: 1, dep_ext: 2}, None), ({}, None), ({free_ext: 3}, None), ({free_ext: 3, dep_ext: 2}, ext)):
                try:
                    deserialize(G, datum, **kw)
                    if missing is not None:
                        viol("dependent_required_group_enforced", f"{datum} accepted although the group requires {missing!r}")
                except ValidationError as e:
                    if missing is None:
                        viol("dependent_required_group_enforced", f"{datum} rejected: {locs(e)}")
                    elif [l for l, _ in locs(e)] != [(missing,)]:
                        viol("dependent_required_group_loc", f"{datum}: {locs(e)}")
            for sname, fn in (("deserialization_schema", deserialization_schema), ("serialization_schema", serialization_schema)):
                dr = fn(G, **kw).get("dependentRequired")
                if dr is None or {k_: sorted(v) for k_, v in dr.items()} != {ext: [dep_ext], dep_ext: [ext]}:
                    viol(sname + ".dependentRequired(G)", f"{dr} != {{{ext!r}: [{dep_ext!r}], {dep_ext!r}: [{ext!r}]}}")
            # error locations
            try:
                deserialize(C, {ext: "bad"}, **kw)
                viol("error_loc", "ill-typed value accepted")
            except ValidationError as e:
                if [l for l, _ in locs(e)] != [(ext,)]:
                    viol("error_loc", f"{locs(e)}")
            try:
                deserialize(C, {other_ext: 1}, **kw)
                viol("error_loc_missing", "missing required accepted")
            except ValidationError as e:
                if locs(e) != [((ext,), "missing property")] and locs(e) != [((ext,), f"missing property (required by [{other_ext!r}])")]:
                    if not all(l == (ext,) for l, _ in locs(e)):
                        viol("error_loc_missing", f"{locs(e)}")
            for sw, msg in (("field_validator", "field validator failed"), ("yielding", "yielded")):
                mod.SWITCH.clear()
                mod.SWITCH[sw] = True
                try:
                    deserialize(C, {ext: 1}, **kw)
                    viol("validator_loc:" + sw, "validator did not fail")
                except ValidationError as e:
                    if locs(e) != [((ext,), msg)]:
                        viol("validator_loc:" + sw, f"{locs(e)}")
                # the same validator failing while another field is structurally invalid (validators then run
                # on the partially built object, through another call site)
                try:
                    deserialize(C, {ext: 1, other_ext: "bad"}, **kw)
                    viol("validator_loc_with_field_error:" + sw, "accepted")
                except ValidationError as e:
                    if locs(e) != sorted([((ext,), msg), ((other_ext,), "expected type integer, found string")]):
                        viol("validator_loc_with_field_error:" + sw, f"{locs(e)}")
                # nested and flattened
                try:
                    deserialize(H, {inner_ext: {ext: 1}}, **kw)
                    viol("nested_validator_loc:" + sw, "validator did not fail")
                except ValidationError as e:
                    if locs(e) != [((inner_ext, ext), msg)]:
                        viol("nested_validator_loc:" + sw, f"{locs(e)}")
                try:
                    deserialize(Fl, {z_ext: 0, ext: 1}, **kw)
                    viol("flattened_validator_loc:" + sw, "validator did not fail")
                except ValidationError as e:
                    if locs(e) != [((ext,), msg)]:
                        viol("flattened_validator_loc:" + sw, f"{locs(e)}")
            # several validators failing at once (a failing validator with discard runs the
            # remaining ones in a nested call: their locations must be aliased as well)
            for combo in (("field_validator", "other_validator"), ("field_validator", "other_yielding"), ("yielding", "other_validator"), ("field_validator", "yielding", "other_validator", "other_yielding")):
                mod.SWITCH.clear()
                for c in combo:
                    mod.SWITCH[c] = True
                msgs = {"field_validator": (ext, "field validator failed"), "yielding": (ext, "yielded"), "other_validator": (other_ext, "other failed"), "other_yielding": (other_ext, "other yielded")}
                # a failing field validator discards its field: later validators reading it are not run
                run = []
                discarded = set()
                for v, f in (("field_validator", "F"), ("yielding", "F"), ("other_validator", "O"), ("other_yielding", "O")):
                    if f in discarded:
                        continue
                    if v in combo:
                        run.append(v)
                        if v in ("field_validator", "other_validator"):
                            discarded.add(f)
                exp = sorted(((msgs[v][0],), msgs[v][1]) for v in run)
                for tname, T_, datum, prefix in (("", C, {ext: 1, other_ext: 2}, ()), ("nested_", H, {inner_ext: {ext: 1, other_ext: 2}}, (inner_ext,))):
                    try:
                        deserialize(T_, datum, **kw)
                        viol(tname + "multi_validator_loc", f"{combo}: validators did not fail")
                    except ValidationError as e:
                        exp2 = sorted((prefix + l, m_) for l, m_ in exp)
                        if locs(e) != exp2:
                            viol(tname + "multi_validator_loc", f"{combo}: {locs(e)} expected {exp2}")
            mod.SWITCH.clear()
            # nested / flattened keys
            try:
                h = deserialize(H, {inner_ext: {ext: 2}}, **kw)
                if serialize(H, h, **kw) != {inner_ext: {ext: 2, other_ext: 0}}:
                    viol("nested_serialize", f"{serialize(H, h, **kw)}")
                f = deserialize(Fl, {z_ext: 0, ext: 3}, **kw)
                if serialize(Fl, f, **kw) != {z_ext: 0, ext: 3, other_ext: 0}:
                    viol("flattened_serialize", f"{serialize(Fl, f, **kw)}")
            except ValidationError as e:
                viol("nested_or_flattened_deserialize", f"{locs(e)}")
            # the same types met again under one more (harmless) layer of constraints, in the same cache lifetime:
            # a second method is derived from what the first visit of the class computed
            from apischema import schema as _schema

            for tname, T_, datum in (("plain", C, {ext: 1}), ("nested", H, {inner_ext: {ext: 2}}), ("flattened", Fl, {z_ext: 0, ext: 3})):
                try:
                    first = deserialize(T_, datum, **kw)
                    again = deserialize(T_, datum, schema=_schema(min_props=1), **kw)
                    if again != first:
                        viol("second_method:" + tname, f"{datum} gives {again!r} under schema(min_props=1), {first!r} without")
                    listed = deserialize(List[Annotated[T_, _schema(max_props=9)]], [datum], **kw)
                    if listed != [first]:
                        viol("second_method:" + tname, f"[{datum}] gives {listed!r} as List[Annotated[T, schema(max_props=9)]]")
                except ValidationError as e:
                    viol("second_method:" + tname, f"{datum} rejected once the type is met under another layer of constraints: {locs(e)}")
            # GraphQL
            if generic:
                # the unspecialised class is one more view of the same fields
                s0 = serialize(Craw, obj, **kw)
                if set(s0) != {ext, other_ext}:
                    viol("serialize_unspecialised", f"keys {sorted(s0)}")
            if route == "param" and not generic and GQL_NAME.match(ext) and GQL_NAME.match(other_ext):
                check_graphql(mod, k, cfg, dyn, ext, other_ext, viol, st)
        except Exception as e:
            st.violation(dict(base, signature={"kind": "exception", "exc": type(e).__name__}, what=f"{cfg} {dyn} {route}: {e!r}"[:300]))
        finally:
            if route == "settings":
                world.restore_settings()


def check_graphql(mod, k, cfg, dyn, ext, other_ext, viol, st):
    import graphql
    from apischema.graphql import graphql_schema

    fname, alias, override, cal, *_ = cfg
    q, m, a = getattr(mod, f"q{k}"), getattr(mod, f"m{k}"), getattr(mod, f"a{k}")
    nn = getattr(mod, f"n{k}")
    schema = graphql_schema(query=[q, a, nn], mutation=[m], aliaser=DYN[dyn])
    st.count("graphql_schemas")
    out_t = schema.type_map[f"C{k}"]
    if set(out_t.fields) != {ext, other_ext}:
        viol("graphql_output_fields", f"{sorted(out_t.fields)}")
    else:
        qn = DYN[dyn](f"q{k}")
        r = graphql.graphql_sync(schema, "{ %s { %s } }" % (qn, ext))
        if r.errors or r.data != {qn: {ext: 7}}:
            viol("graphql_query", f"data={r.data} errors={r.errors}")
    in_t = schema.type_map.get(f"C{k}Input")
    if in_t is None or set(in_t.fields) != {ext, other_ext}:
        viol("graphql_input_fields", f"{sorted(in_t.fields) if in_t else None}")
    else:
        mn = DYN[dyn](f"m{k}")
        r = graphql.graphql_sync(schema, "mutation { %s(%s: {%s: 5}) }" % (mn, DYN[dyn]("arg"), ext))
        if r.errors or r.data != {mn: 5}:
            viol("graphql_mutation", f"data={r.data} errors={r.errors}")
    an = DYN[dyn](f"a{k}")
    arg_ext = DYN[dyn](alias if alias is not None else "p_q")
    if GQL_NAME.match(arg_ext):
        args = set(schema.query_type.fields[an].args)
        if args != {arg_ext}:
            viol("graphql_argument_name", f"{sorted(args)} expected {arg_ext!r}")
        else:
            r = graphql.graphql_sync(schema, "{ %s(%s: 13) }" % (an, arg_ext))
            msg = str(r.errors[0].message) if r.errors else ""
            if not r.errors or repr([arg_ext]) not in msg.replace('"', "'"):
                viol("graphql_argument_error_loc", f"errors={msg!r} expected loc [{arg_ext!r}]")
        # the same parameter with a None default (the schema builder wraps its type in Optional)
        nname = DYN[dyn](f"n{k}")
        args = set(schema.query_type.fields[nname].args)
        if args != {arg_ext}:
            viol("graphql_optional_argument_name", f"{sorted(args)} expected {arg_ext!r}")
        else:
            r = graphql.graphql_sync(schema, "{ %s(%s: 5) }" % (nname, arg_ext))
            if r.errors or r.data != {nname: 5}:
                viol("graphql_optional_argument_value", f"data={r.data} errors={r.errors}")


def configs():
    base = list(itertools.product(NAMES, ALIASES, (True, False), (None, "upper", "prefix"), (False, True)))
    # the alias given through Annotated[...] instead of field metadata (where there is an alias to give)
    return [c + (False,) for c in base] + [c + (True,) for c in base if (c[1] is not None or not c[2]) and not c[4]]


BATCH = 12


def run_late_class_aliaser(st: infra.Stats):
    """a class aliaser registered AFTER the class has been used once (every view warm), then replaced: every view follows"""
    from apischema import alias
    from apischema.objects import get_alias

    src = """
@dataclass
class LA:
    a_b: int = field()
    other: int = field(default=0)
    @validator
    def yielding(self):
        _ = self.a_b
        if SWITCH.get("yielding"):
            yield get_alias(self).a_b, "yielded"
"""
    for dyn in DYN:
        mod = exec_source(PRELUDE + "from apischema.objects import get_alias\n" + src)
        C = mod.LA
        kw = {"aliaser": DYN[dyn]}

        def observe(cal):
            ext, oth = DYN[dyn](cal("a_b")), DYN[dyn](cal("other"))
            out = {}
            try:
                out["deserialize"] = deserialize(C, {ext: 1, oth: 2}, **kw) == C(1, 2)
            except ValidationError as e:
                out["deserialize"] = locs(e)
            out["serialize"] = sorted(serialize(C, C(1, 2), **kw)) == sorted([ext, oth])
            for sname, fn in (("deserialization_schema", deserialization_schema), ("serialization_schema", serialization_schema)):
                out[sname] = sorted(fn(C, **kw).get("properties", {})) == sorted([ext, oth])
            try:
                deserialize(C, {oth: 1}, **kw)
                out["missing_loc"] = "accepted"
            except ValidationError as e:
                out["missing_loc"] = locs(e) == [((ext,), "missing property")] or locs(e)
            mod.SWITCH["yielding"] = True
            try:
                deserialize(C, {ext: 1}, **kw)
                out["validator_loc"] = "accepted"
            except ValidationError as e:
                out["validator_loc"] = locs(e) == [((ext,), "yielded")] or locs(e)
            finally:
                mod.SWITCH.clear()
            return out

        observe(lambda s_: s_)  # warm every view
        for step, cal in (("first registration", str.upper), ("second registration", lambda s_: "p_" + s_)):
            alias(cal)(C)
            st.case("late_class_aliaser", dyn, step)
            for view, ok in observe(cal).items():
                if ok is not True:
                    st.violation({"config": "late class aliaser", "dyn": dyn, "signature": {"kind": "name_mismatch", "view": "late:" + view, "class_aliaser": True, "has_alias": False, "dyn": dyn != "id"}, "what": f"{view} does not use the external names of the class aliaser registered ({step}) on a class already used: {ok}"[:400]})
        sys.modules.pop(mod.__name__, None)
        apischema.cache.reset()


def work(tier, widx, nworkers, st, extra):
    if widx == (1 % nworkers):
        try:
            run_late_class_aliaser(st)
        except Exception:
            import traceback

            st.violation({"signature": {"kind": "harness_error"}, "harness_error": True, "what": "late class aliaser", "traceback": traceback.format_exc()[-2000:]})
    cfgs = configs()
    batches = [cfgs[i : i + BATCH] for i in range(0, len(cfgs), BATCH)]
    try:
        for bi, batch in enumerate(batches):
            if bi % nworkers != widx:
                continue
            src = PRE + "".join(class_source(k, *cfg) for k, cfg in enumerate(batch))
            try:
                mod = exec_source(PRELUDE + src)
            except Exception as e:
                st.violation({"signature": {"kind": "harness_error"}, "harness_error": True, "what": "module generation failed", "traceback": repr(e) + src[:1500]})
                continue
            for k, cfg in enumerate(batch):
                check_config(mod, k, cfg, st)
            sys.modules.pop(mod.__name__, None)
            apischema.cache.reset()
    finally:
        world.restore_settings()
    st.sample({"field": "a_b", "alias": "x_y", "override": True, "class_aliaser": "upper", "dyn": "camel", "expected": expected_name("a_b", "x_y", True, "upper", "camel")})


def main(tier: str, t0: float) -> int:
    st = infra.run_pool("vf.checks.c11", tier)
    return infra.finish(
        PROP,
        tier,
        st,
        t0,
        rule=RULE,
        coverage_extra={"exhaustive": True, "configurations": len(configs()) * 6, "bounds": {"fields_tested_per_class": 1}},
        assumptions=["GraphQL views only for names that are valid GraphQL identifiers (the others cannot be GraphQL names at all)"],
    )


def replay(path: str) -> int:
    v = json.load(open(path))
    st = infra.Stats()
    cfg = eval(v["config"])
    src = PRE + class_source(0, *cfg)
    mod = exec_source(PRELUDE + src)
    try:
        check_config(mod, 0, cfg, st)
    finally:
        world.restore_settings()
    hits = [x for x in st.violations if x.get("signature") == v.get("signature")]
    for x in hits[:3]:
        print(f"VIOLATION property=C11 replay={path}")
        print(" ", x["what"])
    return 1 if hits else 0
