"""C15 — field-set tracking reflects the input and drives exclude_unset.
Engine E2: explicit-state BFS to a fixpoint over histories of operations on one real object;
states are canonicalised as (class, values, tracked set) which determines every future."""
from __future__ import annotations

import itertools
import json
import sys
import time
from collections import deque
from typing import Any, Dict, FrozenSet, List, Optional, Tuple

from .. import infra
from .. import world  # noqa
from ..realize import PRELUDE, exec_source

import apischema
from apischema import deserialize, serialize
from apischema.fields import fields_set, is_set, set_fields, unset_fields

PROP = "C15"
RULE = (
    "for each with_fields_set class of the pool: initial states = constructor with every subset of arguments (positional "
    "prefix and keyword) and deserialize with every subset of keys; operations = set_fields / unset_fields / "
    "set_fields(overwrite) / attribute assignment (2 values) / apischema.dataclasses.replace / dataclasses.replace on every "
    "field, plus set / unset / assignment on the object the last replace() was taken from (it stays alive as a second "
    "object with its own model: the copy and its source must stay independent); breadth-first search over histories, each replayed on a fresh real object, deduplicated on the canonical state "
    "(class, field values, tracked set) of the current object and of the retained source, until no new state appears; in every state fields_set, is_set, serialize() and "
    "serialize(exclude_unset=False) are compared with a set model."
)

SRC = '''
@with_fields_set
@dataclass
class Plain:
    a: int
    b: int = 0
    c: Optional[int] = None

@with_fields_set
@dataclass
class Factory:
    a: int
    b: List[int] = field(default_factory=list)
    c: int = 0

@with_fields_set
@dataclass
class DefaultAsSet:
    a: int
    b: int = field(default=0, metadata=default_as_set)
    c: Optional[int] = None

@with_fields_set
@dataclass
class InitFalse:
    a: int
    b: int = 0
    d: int = field(default=7, init=False)

@with_fields_set
@dataclass
class WithInitVar:
    a: int
    b: int = 0
    iv: InitVar[int] = 3
    def __post_init__(self, iv):
        pass

@with_fields_set
@dataclass
class PostInitAssign:
    a: int
    b: int = 0
    c: int = 0
    def __post_init__(self):
        self.c = 5

@dataclass
class UBase:
    a: int
    b: int = 0

@with_fields_set
@dataclass
class DecoratedDerived(UBase):
    c: int = 0

@with_fields_set
@dataclass
class DBase:
    a: int
    b: int = 0

@with_fields_set
@dataclass
class DecoratedFromDecorated(DBase):
    c: int = 0

# not decorated, own generated __init__: the inherited __new__ / __setattr__ still track (every field
# assigned by the constructor counts as set: pinned test test_fields_set), exclude_unset still applies
@dataclass
class UndecoratedDerived(DBase):
    c: int = 0

# not decorated, no __init__ of its own: the tracked constructor of the base is inherited
class InheritsInit(DBase):
    pass

@with_fields_set
@dataclass
class Aliased:
    a_b: int = field(metadata=alias("x"))
    c: int = field(default=0, metadata=alias("see"))
    d: Optional[int] = None

@with_fields_set
@dataclass
class AllDefaults:
    a: int = 0
    b: int = field(default=0, metadata=default_as_set)
    c: Optional[int] = None

@with_fields_set
@dataclass
class NoDefaultAll:
    a: int
    b: int

@with_fields_set
@dataclass(frozen=True)
class Frozen:
    a: int
    b: int = 0
    c: Optional[int] = None

@dataclass
class KwBase:
    a: int
    _: dataclasses.KW_ONLY
    debug: int = 0

@with_fields_set
@dataclass
class KwChild(KwBase):
    name: int = 0

@with_fields_set
@dataclass
class KwMixed:
    a: int
    flag: int = field(default=0, kw_only=True)
    b: int = 0
'''

# class -> (ordered init params [(name, has_default, default, is_initvar)], post_init_fields, extra stored fields {name: value after init}, aliases, post_init effects)
POOL: Dict[str, dict] = {
    "Plain": dict(params=[("a", False, None), ("b", True, 0), ("c", True, None)]),
    "Factory": dict(params=[("a", False, None), ("b", True, []), ("c", True, 0)], values={"b": ([], [1])}),
    "DefaultAsSet": dict(params=[("a", False, None), ("b", True, 0), ("c", True, None)], always={"b"}),
    "InitFalse": dict(params=[("a", False, None), ("b", True, 0)], always={"d"}, noinit={"d": 7}),
    "WithInitVar": dict(params=[("a", False, None), ("b", True, 0), ("iv", True, 3)], initvars={"iv"}),
    "PostInitAssign": dict(params=[("a", False, None), ("b", True, 0), ("c", True, 0)], post={"c": 5}),
    "DecoratedDerived": dict(params=[("a", False, None), ("b", True, 0), ("c", True, 0)]),
    "DecoratedFromDecorated": dict(params=[("a", False, None), ("b", True, 0), ("c", True, 0)]),
    "UndecoratedDerived": dict(params=[("a", False, None), ("b", True, 0), ("c", True, 0)], init_sets_all=True),
    "InheritsInit": dict(params=[("a", False, None), ("b", True, 0)]),
    "Aliased": dict(params=[("a_b", False, None), ("c", True, 0), ("d", True, None)], aliases={"a_b": "x", "c": "see"}),
    # every field defaulted: instances can be built without any argument
    "AllDefaults": dict(params=[("a", True, 0), ("b", True, 0), ("c", True, None)], always={"b"}),
    "NoDefaultAll": dict(params=[("a", False, None), ("b", False, None)]),
    # keyword-only fields are moved to the end of the generated __init__ (3.10+): positional arguments
    # map to the signature, not to the declaration order
    # assignments are refused (FrozenInstanceError) and must leave the object and its set untouched
    "Frozen": dict(params=[("a", False, None), ("b", True, 0), ("c", True, None)], frozen=True),
    "KwChild": dict(params=[("a", False, None), ("name", True, 0), ("debug", True, 0)], kwonly={"debug"}),
    "KwMixed": dict(params=[("a", False, None), ("b", True, 0), ("flag", True, 0)], kwonly={"flag"}),
}


class Model:
    """the 10-line set model (plus values, needed to predict serialize output)"""

    def __init__(self, cname: str, kwargs: Dict[str, Any]):
        spec = POOL[cname]
        self.cname = cname
        self.spec = spec
        self.values: Dict[str, Any] = {}
        for name, has_d, d in spec["params"]:
            if name in spec.get("initvars", ()):
                continue
            self.values[name] = kwargs[name] if name in kwargs else (list(d) if isinstance(d, list) else d)
        for k, v in spec.get("noinit", {}).items():
            self.values[k] = v
        for k, v in spec.get("post", {}).items():
            self.values[k] = v  # assignment inside __post_init__ is construction, not tracked
        self.set = ({k for k in kwargs} - set(spec.get("initvars", ()))) | set(spec.get("always", ()))
        if spec.get("init_sets_all"):
            # the constructor is not the tracked one: each of its assignments goes through the tracked __setattr__
            self.set = set(self.values)

    def fields(self) -> List[str]:
        return list(self.values)

    def apply(self, op) -> "Model":
        kind = op[0]
        if kind == "set":
            self.set.add(op[1])
        elif kind == "unset":
            self.set.discard(op[1])
        elif kind == "overwrite":
            self.set = {op[1]}
        elif kind == "assign":
            if self.spec.get("frozen"):
                return self  # refused: nothing changes
            self.values[op[1]] = op[2]
            self.set.add(op[1])
        elif kind in ("replace", "dc_replace"):
            spec = self.spec
            kwargs = {}
            for name, has_d, d in spec["params"]:
                if name in spec.get("initvars", ()):
                    continue
                kwargs[name] = self.values[name]
            kwargs[op[1]] = op[2]
            old_set = set(self.set)
            m = Model(self.cname, kwargs)
            if kind == "replace":
                m.set = old_set | {op[1]}
            # dc_replace: documented to set every (init) field -> Model(...) already did that
            return m
        return self


def canon(obj) -> tuple:
    d = dict(vars(obj))
    fs = d.pop("_apischema_fields_set", None)
    return (type(obj).__name__, tuple(sorted((k, repr(v)) for k, v in d.items())), tuple(sorted(fs)) if fs is not None else None)


def apply_real(mod, obj, op):
    kind = op[0]
    if kind == "set":
        return set_fields(obj, op[1])
    if kind == "unset":
        return unset_fields(obj, op[1])
    if kind == "overwrite":
        return set_fields(obj, op[1], overwrite=True)
    if kind == "assign":
        import dataclasses

        try:
            setattr(obj, op[1], op[2])
        except dataclasses.FrozenInstanceError:
            if not POOL[type(obj).__name__].get("frozen"):
                raise
        return obj
    if kind == "replace":
        import apischema.dataclasses as adc

        return adc.replace(obj, **{op[1]: op[2]})
    if kind == "dc_replace":
        import dataclasses

        return dataclasses.replace(obj, **{op[1]: op[2]})
    raise ValueError(op)


def build(mod, cname, init, history):
    cls = getattr(mod, cname)
    how, payload = init
    spec = POOL[cname]
    if how == "kw":
        obj = cls(**payload)
        model = Model(cname, payload)
    elif how == "pos":
        names = [n for n, _, _ in spec["params"]][: len(payload)]
        obj = cls(*payload)
        model = Model(cname, dict(zip(names, payload)))
    else:  # deserialize
        aliases = spec.get("aliases", {})
        obj = deserialize(cls, {aliases.get(k, k): v for k, v in payload.items()})
        model = Model(cname, payload)
    prev = None  # (object, model) a replace() was last taken from: it stays alive and must stay independent
    for op in history:
        if op[0].startswith("prev_"):
            if prev is not None:
                op2 = (op[0][5:],) + tuple(op[1:])
                apply_real(mod, prev[0], op2)
                prev[1].apply(op2)
            continue
        if op[0] in ("replace", "dc_replace"):
            prev = (obj, model)
        obj = apply_real(mod, obj, op)
        model = model.apply(op)
    return obj, model, prev


def check_state(cname, obj, model: Model, hist, st: infra.Stats, role: str = "current"):
    spec = POOL[cname]
    aliases = spec.get("aliases", {})
    problems = []
    real = set(fields_set(obj))
    if real != model.set:
        problems.append(("fields_set", f"fields_set={sorted(real)} model={sorted(model.set)}"))
    for f in model.fields():
        if getattr(is_set(obj), f) != (f in model.set):
            problems.append(("is_set", f"is_set.{f}"))
    cls = type(obj)
    try:
        out = serialize(cls, obj)
        exp_keys = {aliases.get(f, f) for f in model.fields() if f in model.set}
        if set(out) != exp_keys:
            problems.append(("serialize_unset", f"serialize keys={sorted(out)} expected={sorted(exp_keys)}"))
        else:
            for f in model.fields():
                if f in model.set and out[aliases.get(f, f)] != model.values[f]:
                    problems.append(("serialize_value", f"serialize[{f}]={out[aliases.get(f, f)]!r} model={model.values[f]!r}"))
        out2 = serialize(cls, obj, exclude_unset=False)
        if set(out2) != {aliases.get(f, f) for f in model.fields()}:
            problems.append(("serialize_all", f"serialize(exclude_unset=False) keys={sorted(out2)}"))
        out3 = serialize(obj)
        if out3 != out:
            problems.append(("serialize_untyped", f"serialize(obj)={out3} != serialize(cls, obj)={out}"))
    except Exception as e:
        problems.append(("serialize_exception", f"{type(e).__name__}: {e}"))
    for kind, msg in problems:
        st.violation(
            {
                "signature": dict({"kind": kind, "class": cname, "last_op": hist[-1][0] if hist else "init"}, **({"object": role} if role != "current" else {})),
                "what": f"{cname} after {hist}{'' if role == 'current' else ' (' + role + ')'}: {msg}"[:400],
                "class": cname,
                "history": [list(h) if isinstance(h, tuple) else h for h in hist],
            }
        )


def fresh_probe(mod, cname, hist, st: infra.Stats):
    """instances do not share their tracked set: whatever was done to the explored object(s), an instance built afresh with
    the least arguments (constructor and deserialize) has the set of a first instance"""
    spec = POOL[cname]
    required = {n: (spec.get("values", {}).get(n, (0, 1))[1] if n in spec.get("values", {}) else 1) for n, has_d, _ in spec["params"] if not has_d}
    for how in ("kw", "deser"):
        try:
            obj, model, _ = build(mod, cname, (how, dict(required)), [])
        except Exception:
            continue
        real = set(fields_set(obj))
        if real != model.set:
            st.violation(
                {
                    "signature": {"kind": "fresh_instance_fields_set", "class": cname, "how": how, "last_op": hist[-1][0] if hist else "init"},
                    "what": f"{cname}: after {hist} on another instance, a fresh instance ({how} {required}) has fields_set={sorted(real)}, a first instance has {sorted(model.set)}"[:400],
                    "class": cname,
                    "history": [list(h) if isinstance(h, tuple) else h for h in hist],
                }
            )
            return


def explore_class(mod, cname, st: infra.Stats, max_depth: int):
    spec = POOL[cname]
    params = spec["params"]
    initvars = set(spec.get("initvars", ()))
    required = [n for n, has_d, _ in params if not has_d]
    optional = [n for n, has_d, _ in params if has_d]
    val = {n: 1 for n, _, _ in params}
    for n, (v0, v1) in spec.get("values", {}).items():
        val[n] = v1
    inits = []
    for k in range(len(optional) + 1):
        for sub in itertools.combinations(optional, k):
            kw = {n: val[n] for n in required + list(sub)}
            inits.append(("kw", kw))
            inits.append(("deser", {k2: v for k2, v in kw.items()}))
    positional = [p for p in params if p[0] not in spec.get("kwonly", ())]
    for n in range(len(required), len(positional) + 1):
        inits.append(("pos", [val[p[0]] for p in positional[:n]]))
    fields = [n for n, _, _ in params if n not in initvars] + list(spec.get("noinit", {}))
    ops = []
    for f in fields:
        ops += [("set", f), ("unset", f), ("overwrite", f), ("assign", f, 0), ("assign", f, val.get(f, 1))]
        if f not in spec.get("noinit", {}):
            ops += [("replace", f, 0), ("dc_replace", f, val.get(f, 1))]
        ops += [("prev_set", f), ("prev_unset", f), ("prev_assign", f, 0)]
    seen = set()
    frontier = deque()
    transitions = 0
    maxd = 0
    for init in inits:
        try:
            obj, model, _ = build(mod, cname, init, [])
        except Exception as e:
            st.violation({"signature": {"kind": "init_exception", "class": cname}, "what": f"{cname} {init}: {type(e).__name__}: {e}", "class": cname, "history": [init]})
            continue
        transitions += 1
        check_state(cname, obj, model, [init], st)
        k = (canon(obj), None)
        if k not in seen:
            seen.add(k)
            frontier.append((init, []))
    capped = False
    while frontier:
        init, hist = frontier.popleft()
        for op in ops:
            h2 = hist + [op]
            if op[0].startswith("prev_") and not any(o[0] in ("replace", "dc_replace") for o in hist):
                continue  # no retained source object yet: the operation is not enabled
            try:
                obj, model, prev = build(mod, cname, init, h2)
            except Exception as e:
                st.violation({"signature": {"kind": "op_exception", "class": cname, "op": op[0], "exc": type(e).__name__}, "what": f"{cname} {init} {h2}: {type(e).__name__}: {e}"[:300], "class": cname, "history": [init] + h2})
                continue
            transitions += 1
            check_state(cname, obj, model, [init] + h2, st)
            fresh_probe(mod, cname, [init] + h2, st)
            if prev is not None:
                # the object replace() was called on is a second live object: same checks, its own model
                check_state(cname, prev[0], prev[1], [init] + h2, st, role="source_of_replace")
            k = (canon(obj), canon(prev[0]) if prev is not None else None)
            if k not in seen:
                seen.add(k)
                maxd = max(maxd, len(h2))
                if len(h2) < max_depth:
                    frontier.append((init, h2))
                else:
                    capped = True
    st.count("states", len(seen))
    st.count("transitions", transitions)
    st.note("per_class", f"{cname}: states={len(seen)} transitions={transitions} max_depth={maxd} capped={capped}")
    if capped:
        st.count("depth_cap_hit")
    st.sample({"class": cname, "initial_states": len(inits), "operations": len(ops), "states": len(seen), "example_history": [inits[0], ops[3], ops[-1]]})
    for s in seen:
        st.distinct.add(hash(s))


def work(tier, widx, nworkers, st, extra):
    mod = exec_source(PRELUDE + SRC)
    names = list(POOL)
    for i, cname in enumerate(names):
        if i % nworkers == widx:
            explore_class(mod, cname, st, 4 if tier == "quick" else 7)


def main(tier: str, t0: float) -> int:
    st = infra.run_pool("vf.checks.c15", tier, nworkers=min(len(POOL), 11))
    st.counters["evaluations"] = st.counters.get("transitions", 0)
    return infra.finish(
        PROP,
        tier,
        st,
        t0,
        rule=RULE,
        mc_keys={
            "states": max(1, int(st.counters.get("states", 0))),
            "transitions": max(1, int(st.counters.get("transitions", 0))),
            "traces_validated_against_impl": int(st.counters.get("transitions", 0)),
            "exhaustive": st.counters.get("depth_cap_hit", 0) == 0,
            "bounds": {"depth_cap": 4 if tier == "quick" else 7, "values_per_field": 2, "classes": list(POOL)},
        },
        assumptions=[
            "only decorated classes are checked objects; assignments inside __post_init__ are construction, not attribute assignment",
            "canonical state (class, __dict__ values, tracked set) determines every future behaviour of the object",
        ],
    )


def replay(path: str) -> int:
    v = json.load(open(path))
    mod = exec_source(PRELUDE + SRC)
    hist = v["history"]
    init = (hist[0][0], hist[0][1])
    ops = [tuple(h) for h in hist[1:]]
    st = infra.Stats()
    obj, model, prev = build(mod, v["class"], init, ops)
    check_state(v["class"], obj, model, hist, st)
    if prev is not None:
        check_state(v["class"], prev[0], prev[1], hist, st, role="source_of_replace")
    for x in st.violations:
        print(f"VIOLATION property=C15 replay={path}")
        print(" ", x["what"])
    return 1 if st.violations else 0
