"""The bounded type grammar G(b): atoms, unary / n-ary constructors, object shapes, and the
well-formedness predicate.  Every function returns fresh TypeSpecs with names unique inside one
spec (each spec is realised in its own synthetic module)."""
from __future__ import annotations

import itertools
from typing import Any, Callable, Dict, Iterator, List, Optional, Tuple

from .data import skeletons
from .refmodel.deser import UNDEF, Ctx, VAlts, VEnum, VObj, conform, flat_alts, resolve
from .tast import (
    BOOL,
    FLOAT,
    INT,
    NONE,
    STR,
    AnyT,
    Coll,
    Con,
    EnumT,
    F,
    Gen,
    Lit,
    M,
    MapT,
    NewT,
    Obj,
    Opt,
    Prim,
    Ref,
    T,
    Tup,
    TVar,
    Uni,
    short,
    walk,
)


class Namer:
    def __init__(self):
        self.n = 0

    def __call__(self, prefix: str) -> str:
        self.n += 1
        return f"{prefix}{self.n}"


# ------------------------------------------------------------------------------- atoms
def atoms(nm: Namer) -> Dict[str, T]:
    return {
        "int": INT,
        "float": FLOAT,
        "str": STR,
        "bool": BOOL,
        "none": NONE,
        "any": AnyT(),
        "lit_mixed": Lit((1, "a")),
        "lit_bool": Lit((True,)),
        "lit_str": Lit(("a", "b")),
        "lit_int": Lit((1, 2)),
        "lit_empty": Lit(("",)),  # a single, falsy, literal value
        "enum_int": EnumT(nm("E"), (("A", 1), ("B", 2))),
        "enum_str": EnumT(nm("E"), (("A", "a"), ("B", "b"))),
        "newtype_int": NewT(nm("N"), INT),
        "con_int": Con(INT, (("min", 0), ("max", 2), ("mult_of", 2))),
        "con_str": Con(STR, (("min_len", 1), ("max_len", 2), ("pattern", "^a"))),
        "con_float": Con(FLOAT, (("exc_min", 0), ("exc_max", 2))),
        "tuple0": Tup(()),  # Tuple[()]: the empty tuple only
    }


ATOM_NAMES = list(atoms(Namer()))
# one representative per behaviour class (check-only / copying / constrained / mapped)
ATOM_CLASS_REPS = ["int", "float", "con_int", "enum_str"]


def atom(name: str, nm: Namer) -> T:
    return atoms(nm)[name]


# ------------------------------------------------------------------------------- unary
def unary_ctors(nm: Namer) -> Dict[str, Callable[[T], T]]:
    def mapping_patkey(x: T) -> T:
        return MapT("mapping", NewT(nm("K"), Con(STR, (("pattern", "^k"),))), x)

    return {
        "opt": lambda x: Opt(x),
        "opt_rev": lambda x: Uni((NONE, x)),  # Union[None, T]: the same alternatives declared None first
        "list": lambda x: Coll("list", x),
        "seq": lambda x: Coll("seq", x),
        "set": lambda x: Coll("set", x),
        "frozenset": lambda x: Coll("frozenset", x),
        "vartuple": lambda x: Coll("vartuple", x),
        "dict": lambda x: MapT("dict", STR, x),
        "mapping_patkey": mapping_patkey,
        # keys whose typed image is not the raw string (the check-only / pass-through fast paths must not apply)
        "dict_enumkey": lambda x: MapT("dict", EnumT(nm("KE"), (("A", "ka"), ("B", "kb"))), x),
        "mapping_litkey": lambda x: MapT("mapping", Lit(("k1", "k2")), x),
        "con_list": lambda x: Con(Coll("list", x), (("min_items", 1), ("max_items", 2), ("unique", True))),
        "con_dict": lambda x: Con(MapT("dict", STR, x), (("min_props", 1), ("max_props", 2))),
        "newtype_list": lambda x: NewT(nm("N"), Coll("list", x)),
        "tuple1": lambda x: Tup((x,)),
        "tuple2_int": lambda x: Tup((x, INT)),
        "tuple2_rev": lambda x: Tup((STR, x)),
        "union_str": lambda x: Uni((x, STR)),
        "union_rev_none_int": lambda x: Uni((NONE, INT, x)),
    }


UNARY_NAMES = list(unary_ctors(Namer()))


# ------------------------------------------------------------------------------- defaults
def value_src(v: Any) -> str:
    """python source of a model value"""
    if isinstance(v, VAlts):
        return value_src(v.first)
    if v is UNDEF:
        return "Undefined"
    if isinstance(v, VEnum):
        return f"{v.enum}.{v.member}"
    if isinstance(v, VObj):
        args = v.ctor if v.ctor is not None else v.fields
        return f"{v.cls}(" + ", ".join(f"{k}={value_src(x)}" for k, x in args.items() if k not in v.noinit) + ")"
    if isinstance(v, list):
        return "[" + ", ".join(map(value_src, v)) + "]"
    if isinstance(v, tuple):
        return "(" + ", ".join(map(value_src, v)) + ("," if len(v) == 1 else "") + ")"
    if isinstance(v, set):
        return "{" + ", ".join(map(value_src, v)) + "}" if v else "set()"
    if isinstance(v, frozenset):
        return "frozenset([" + ", ".join(map(value_src, v)) + "])"
    if isinstance(v, dict):
        return "{" + ", ".join(f"{value_src(k)}: {value_src(x)}" for k, x in v.items()) + "}"
    return repr(v)


def is_mutable_value(v: Any) -> bool:
    return isinstance(v, (list, set, dict, VObj)) or (isinstance(v, VAlts) and is_mutable_value(v.first))


def default_for(t: T, ctx: Ctx, which: int = -1) -> Optional[Tuple[str, Any, bool]]:
    """(source expr, model value, mutable?) of a default value for a field of type t"""
    sk = skeletons(t, ctx)
    if not sk:
        return None
    if any(isinstance(x, Obj) and any(f.initvar for f in x.fields) for x in walk(t)):
        return None  # a value of such a class cannot be rebuilt from its fields
    r = conform(t, sk[which], ctx)
    if not r.ok:
        return None
    v = r.value
    return value_src(v), v, is_mutable_value(v)


def dfield(name: str, t: T, ctx: Ctx, which: int = -1, **kw) -> Optional[F]:
    """field with a default (default_factory when the default is mutable)"""
    d = default_for(t, ctx, which)
    if d is None:
        return None
    src, v, mut = d
    if mut:
        return F(name, t, factory=f"lambda: {src}", default_value=v, **kw)
    return F(name, t, default=src, has_default=True, default_value=v, **kw)


# ------------------------------------------------------------------------------- objects
def object_shapes(nm: Namer) -> Dict[str, Callable[[T, Ctx], Optional[T]]]:
    """shape name -> builder(X, ctx) -> Obj spec (or None when X does not fit the shape)"""

    def is_obj(x):
        return isinstance(x, (Obj, Gen))

    def req(x, c):
        return Obj("dataclass", nm("O"), (F("a", x),))

    def default(x, c):
        f = dfield("a", x, c)
        return f and Obj("dataclass", nm("O"), (f,))

    def default_first(x, c):
        f = dfield("a", x, c, which=0)
        return f and Obj("dataclass", nm("O"), (F("r", INT), f))

    def required_md(x, c):
        f = dfield("a", x, c, required=True)
        return f and Obj("dataclass", nm("O"), (f,))

    def aliased(x, c):
        f = dfield("b_c", INT, c, alias="bee")
        return Obj("dataclass", nm("O"), (F("a_b", x, alias="x_y"), f))

    def class_aliaser(x, c):
        return Obj(
            "dataclass",
            nm("O"),
            # (e: the alias carried by the annotation, overridden by the class aliaser like any other)
            (F("a_b", x), F("c", INT, alias="see", override=False), F("d", INT, alias="dee"), F("e", INT, alias="eee", alias_annotated=True, default="0", has_default=True, default_value=0)),
            class_aliaser="upper",
        )

    def dep_req(x, c):
        fa, fb = dfield("a", x, c), dfield("b", INT, c)
        return fa and Obj("dataclass", nm("O"), (fa, fb), dep_req=(("a", ("b",)),))

    def dep_req_undefined(x, c):
        # the requiring field is always serialized, the required one can be omitted (Undefined): the serialization schema
        # cannot promise it
        return Obj(
            "dataclass",
            nm("O"),
            (F("a", x), F("b", Uni((INT, Prim("undefined"))), default="Undefined", has_default=True, default_value=UNDEF)),
            dep_req=(("a", ("b",)),),
        )

    def flat_req(x, c):
        inner = Obj("dataclass", nm("I"), (F("x", x), dfield("y", INT, c)))
        return Obj("dataclass", nm("O"), (F("a", INT), F("inner", inner, flatten=True)))

    def flat_default(x, c):
        inner = Obj("dataclass", nm("I"), (F("x", x),))
        f = dfield("inner", inner, c, flatten=True)
        return f and Obj("dataclass", nm("O"), (F("a", INT), f))

    def flat_nested(x, c):
        inner2 = Obj("dataclass", nm("I"), (F("x", x),))
        inner1 = Obj("dataclass", nm("I"), (F("m", INT, alias="em"), F("deep", inner2, flatten=True)))
        return Obj("dataclass", nm("O"), (F("a", INT), F("inner", inner1, flatten=True)))

    def props(x, c):
        return Obj(
            "dataclass",
            nm("O"),
            (
                F("a", INT),
                F("pat", MapT("mapping", STR, x), props="^p", factory="dict", default_value={}),
                F("pat2", MapT("mapping", STR, INT), props="^pq", factory="dict", default_value={}),
                F("rest", MapT("mapping", STR, x), props="", factory="dict", default_value={}),
            ),
        )

    def props_only_pattern(x, c):
        return Obj(
            "dataclass", nm("O"), (F("a", INT), F("pat", MapT("mapping", STR, x), props="^p", factory="dict", default_value={}))
        )

    def props_inferred(x, c):
        # properties(...): the pattern comes from the key type of the mapping
        k = NewT(nm("K"), Con(STR, (("pattern", "^p"),)))
        return Obj(
            "dataclass",
            nm("O"),
            (
                F("a", INT),
                F("pat", MapT("mapping", k, x), props="^p", props_infer=True, factory="dict", default_value={}),
                F("rest", MapT("mapping", STR, x), props="", factory="dict", default_value={}),
            ),
        )

    def skip_variants(x, c):
        fa = dfield("s_all", x, c, skip="all")
        fb = dfield("s_de", x, c, skip="deser")
        fc = dfield("s_se", x, c, skip="ser")
        return fa and Obj("dataclass", nm("O"), (F("a", x), fa, fb, fc))

    def none_as_undef(x, c):
        if resolve(x, c) == NONE:
            return None
        return Obj(
            "dataclass",
            nm("O"),
            (F("a", Opt(x), default="None", has_default=True, default_value=None, none_as_undefined=True),),
        )

    def none_as_undef_604(x, c):
        # the same with the union written `T | None` (PEP 604: another runtime class than typing.Union)
        if resolve(x, c) == NONE:
            return None
        return Obj(
            "dataclass",
            nm("O"),
            (F("a", Uni((x, NONE), pep604=True), default="None", has_default=True, default_value=None, none_as_undefined=True), F("b", Uni((INT, NONE), pep604=True), default="None", has_default=True, default_value=None)),
        )

    def annotated_union(x, c):
        # unions under an annotation: Annotated[Optional[T], ...] and Annotated[Union[int, UndefinedType], ...] are still unions
        # for exclude_none / Undefined omission
        return Obj(
            "dataclass",
            nm("O"),
            (
                F("a", x),
                F("o", Con(Opt(INT), (("max", 10 ** 6),)), default="None", has_default=True, default_value=None),
                F("u", Con(Uni((INT, Prim("undefined"))), (("max", 10 ** 6),)), default="0", has_default=True, default_value=0),
            ),
        )

    def undefined_default(x, c):
        return Obj(
            "dataclass",
            nm("O"),
            (F("a", Uni((x, Prim("undefined"))), default="Undefined", has_default=True, default_value=UNDEF),),
        )

    def undefined_default_plain(x, c):
        # a default Undefined marks the field as absent whatever its declared type (docs/data_model.md)
        return Obj("dataclass", nm("O"), (F("a", x, default="Undefined", has_default=True, default_value=UNDEF), F("b", INT, default="0", has_default=True, default_value=0)))

    def init_false(x, c):
        f = dfield("b", x, c, init=False)
        return f and Obj("dataclass", nm("O"), (F("a", INT), f))

    def initvar(x, c):
        return Obj(
            "dataclass",
            nm("O"),
            (
                F("a", INT),
                F("iv", x, initvar=True),
                F("got", AnyT(), init=False, default="None", has_default=True, default_value=None),
            ),
            post_init="    def __post_init__(self, iv):\n        self.got = iv",
            post_assign=(("got", "iv"),),
        )

    def fbod_field(x, c):
        f = dfield("a", x, c, fbod=True)
        return f and Obj("dataclass", nm("O"), (F("b", INT), f))

    def obj_cons(x, c):
        fb = dfield("b", INT, c)
        fc = dfield("c", INT, c)
        return Obj("dataclass", nm("O"), (F("a", x), fb, fc), cons=(("min_props", 2), ("max_props", 2)))

    def namedtuple(x, c):
        fb = dfield("b", INT, c)
        if fb.factory:
            return None
        return Obj("namedtuple", nm("O"), (F("a", x), fb))

    def typeddict_total(x, c):
        return Obj("typeddict", nm("O"), (F("a", x), F("b", INT)))

    def typeddict_nontotal(x, c):
        return Obj(
            "typeddict",
            nm("O"),
            (
                F("a", x, default="Undefined", has_default=True, default_value=UNDEF),
                F("b", INT, default="Undefined", has_default=True, default_value=UNDEF),
            ),
            total=False,
        )

    def generic(x, c):
        # (o: the type variable inside a union, which typing re-parametrises on its own)
        o = Obj(
            "dataclass",
            nm("O"),
            (F("a", TVar("TV")), F("b", Coll("list", TVar("TV")), factory="list", default_value=[]), F("o", Opt(TVar("TV")), default="None", has_default=True, default_value=None)),
            generic_params=("TV",),
        )
        return Gen(o, (x,))

    def generic_ser_method(x, c):
        # a serialized method typed by the type variable: serialized as the argument of the specialisation
        o = Obj("dataclass", nm("O"), (F("a", TVar("TV")),), generic_params=("TV",), methods=(M("ma", Opt(TVar("TV")), "self.a", lambda fs: fs["a"]),))
        return Gen(o, (x,))

    def class_validator(x, c):
        # a class validator which reads two fields and never fails: outcomes are those of the class without it, whatever
        # the data (validators run on partially valid data through a mock object)
        return Obj(
            "dataclass",
            nm("O"),
            (F("a_b", x, alias="x-a"), F("c", INT, default="0", has_default=True, default_value=0)),
            extra_src="    @validator\n    def _chk(self):\n        _ = (self.a_b, self.c)",
        )

    def class_validator_inherited(x, c):
        # the (never failing) validator of the base reads its fields through a method that the subclass overrides to read one
        # more, required, field: for the subclass the validator depends on that field too
        base = Obj(
            "dataclass",
            nm("B"),
            (F("a", x),),
            extra_src="    def _total(self):\n        return self.a\n    @validator\n    def _chk(self):\n        _ = self._total()",
        )
        return Obj(
            "dataclass",
            nm("O"),
            (F("c", INT),),
            bases=(base.name,),
            base_specs=(base,),
            extra_src="    def _total(self):\n        return (self.a, self.c)",
        )

    def ordered(x, c):
        # serialized in an order which is not the declaration order
        return Obj("dataclass", nm("O"), (F("a", x), F("b", INT, default="0", has_default=True, default_value=0, order="order(-1)")))

    def generic_swap(x, c):
        # class O(GB[TW, TV], Generic[TV, TW]): the parameters of the subclass are NOT in the order of their first
        # appearance in the bases; O[x, str] has a: str, b: x
        base = Obj("dataclass", nm("GB"), (F("a", TVar("TV")), F("b", TVar("TW"))), generic_params=("TV", "TW"))
        o = Obj(
            "dataclass",
            nm("O"),
            (F("a", TVar("TW"), inherited=True), F("b", TVar("TV"), inherited=True), F("c", INT, default="0", has_default=True, default_value=0)),
            generic_params=("TV", "TW"),
            bases=(f"{base.name}[TW, TV]",),
            base_specs=(base,),
        )
        return Gen(o, (x, STR))

    def generic_nested(x, c):
        # class O(GB[List[TV]], Generic[TV]): a type variable nested inside the argument of the base
        base = Obj("dataclass", nm("GB"), (F("a", TVar("TV")),), generic_params=("TV",))
        o = Obj(
            "dataclass",
            nm("O"),
            (F("a", Coll("list", TVar("TV")), inherited=True), F("c", INT, default="0", has_default=True, default_value=0)),
            generic_params=("TV",),
            bases=(f"{base.name}[List[TV]]",),
            base_specs=(base,),
        )
        return Gen(o, (x,))

    def rec_opt(x, c):
        n = nm("O")
        return Obj("dataclass", n, (F("a", x), F("next", Opt(Ref(n)), default="None", has_default=True, default_value=None)))

    def rec_cons(x, c):
        # a constraint attached to the back-reference itself (field metadata)
        n = nm("O")
        return Obj(
            "dataclass",
            n,
            (F("a", x), F("next", Opt(Ref(n)), default="None", has_default=True, default_value=None, cons=(("max_props", 1),))),
        )

    def rec_tuple(x, c):
        # the cycle goes through a fixed-size tuple whose first element is not the recursive one
        n = nm("O")
        return Obj("dataclass", n, (F("a", x), F("child", Opt(Tup((STR, Ref(n)))), default="None", has_default=True, default_value=None)))

    def rec_list(x, c):
        n = nm("O")
        return Obj("dataclass", n, (F("a", x), F("kids", Coll("list", Ref(n)), factory="list", default_value=[])))

    def rec_dict(x, c):
        n = nm("O")
        return Obj("dataclass", n, (F("a", x), F("kids", MapT("dict", STR, Ref(n)), factory="dict", default_value={})))

    def mutual(x, c):
        n1, n2 = nm("O"), nm("O")
        o2 = Obj("dataclass", n2, (F("a", x), F("back", Opt(Ref(n1)), default="None", has_default=True, default_value=None)))
        return Obj("dataclass", n1, (F("b", INT), F("other", Opt(o2), default="None", has_default=True, default_value=None)))

    def nested_cycles(x, c):
        # two cycles sharing a class (P -> R -> K -> R and P -> S -> K -> P): every class is recursive
        nP, nR, nK, nS = nm("O"), nm("O"), nm("O"), nm("O")

        def opt(name, t):
            return F(name, Opt(t), default="None", has_default=True, default_value=None)

        oK = Obj("dataclass", nK, (opt("r", Ref(nR)), opt("p", Ref(nP))))
        oR = Obj("dataclass", nR, (opt("k", oK),))
        oS = Obj("dataclass", nS, (opt("k", Ref(nK)),))
        return Obj("dataclass", nP, (F("a", x), opt("r", oR), opt("s", oS)))

    def field_cons(x, c):
        rx = x
        while isinstance(rx, (NewT,)):
            rx = rx.base
        if rx == INT:
            return Obj("dataclass", nm("O"), (F("a", x, cons=(("min", 1), ("max", 3))),))
        if rx == STR:
            return Obj("dataclass", nm("O"), (F("a", x, cons=(("min_len", 2),)),))
        if isinstance(rx, Coll) and rx.kind in ("list", "seq"):
            return Obj("dataclass", nm("O"), (F("a", x, cons=(("max_items", 1),)),))
        if isinstance(rx, Con) and rx.base == INT:
            # a second, looser layer of the same keywords over a constrained type (one of whose bounds is 0):
            # both layers hold, i.e. the strictest bound of each keyword
            # (field b: a layer which does not set the keyword whose inner bound is 0)
            return Obj(
                "dataclass",
                nm("O"),
                (
                    F("a", x, cons=(("min", -2), ("max", 5))),
                    F("b", x, default="0", has_default=True, default_value=0, cons=(("max", 5),)),
                    # the second layer as a second annotation of the same Annotated (typing flattens them): both layers hold
                    F("c", Con(x, (("max", 5),)), default="0", has_default=True, default_value=0),
                    F("d", Con(Con(x, (("exc_min", -1),)), (("max", 5),)), default="0", has_default=True, default_value=0),
                ),
            )
        if isinstance(rx, AnyT):
            # numeric constraints at an Any position bear on numbers only (a boolean is not a number)
            return Obj("dataclass", nm("O"), (F("a", x, cons=(("min", 2), ("mult_of", 2))),))
        if isinstance(rx, Tup):
            # an annotated fixed-size tuple (its schema node is rewritten by the older JSON Schema versions)
            return Obj("dataclass", nm("O"), (F("a", x, cons=(("max_items", 9),)),))
        if isinstance(rx, (Lit, EnumT)):
            # constraints on a literal / enum position: checked on the datum like anywhere else
            return Obj("dataclass", nm("O"), (F("a", x, cons=(("max", 1), ("pattern", "^a"))),))
        return None

    def ser_methods(x, c):
        return Obj(
            "dataclass",
            nm("O"),
            (F("a", x),),
            methods=(
                M("m", INT, "42", lambda fs: 42),
                M("p", Opt(INT), "None", lambda fs: None, alias="p_p", prop=True),
                M("u", Uni((INT, Prim("undefined"))), "Undefined", lambda fs: UNDEF, undefined=True),
                M("echo", AnyT(), "self.a", lambda fs: fs["a"]),
            ),
        )

    def ser_override(x, c):
        # a serialized method registered again by the subclass under the same name: the subclass's declaration (function,
        # return type) is the one of the subclass; the other method of the base is inherited
        base = Obj(
            "dataclass",
            nm("B"),
            (F("a", x),),
            methods=(M("m", INT, "1", lambda fs: 1), M("w", AnyT(), "self.a", lambda fs: fs["a"])),
        )
        return Obj(
            "dataclass",
            nm("O"),
            (F("b", INT, default="0", has_default=True, default_value=0),),
            bases=(base.name,),
            base_specs=(base,),
            methods=(
                M("w", AnyT(), "self.a", lambda fs: fs["a"], inherited=True),
                M("m", Uni((STR, Prim("undefined"))), "Undefined", lambda fs: UNDEF, undefined=True),
            ),
        )

    def ser_rec_method(x, c):
        # the class is recursive only through the return types of its serialized methods
        n = nm("O")
        return Obj(
            "dataclass",
            n,
            (F("a", x),),
            methods=(
                M("kids", Coll("list", Ref(n)), "[]", lambda fs: []),
                M("nxt", Opt(Ref(n)), "None", lambda fs: None),
            ),
        )

    def ser_if(x, c):
        f = dfield("b", x, c, ser_default=True)
        return f and Obj("dataclass", nm("O"), (F("a", x, ser_if="lambda v: not v"), f))

    def inherit_fields(x, c):
        base = Obj("dataclass", nm("B"), (F("a", x),))
        fb = dfield("b", INT, c)
        return Obj("dataclass", nm("O"), (fb,), bases=(base.name,), base_specs=(base,))

    def inherit_slots(x, c):
        # the inherited field lives in a slot of the base class, not in the instance __dict__
        base = Obj("dataclass", nm("B"), (F("a", x),), slots=True)
        return Obj("dataclass", nm("O"), (F("b", INT, default="0", has_default=True, default_value=0),), bases=(base.name,), base_specs=(base,))

    def inherit_post_init(x, c):
        # the derived class does not define __post_init__ itself: it inherits the one of its base
        base = Obj(
            "dataclass",
            nm("B"),
            (F("tag", INT, default="1", has_default=True, default_value=1),),
            post_init="    def __post_init__(self):\n        self.tag = self.tag + 100",
            post_effects=(("tag", lambda fs: fs["tag"] + 100),),
        )
        fa = dfield("a", x, c)
        return fa and Obj("dataclass", nm("O"), (fa,), bases=(base.name,), base_specs=(base,))

    def custom_init(x, c):
        # hand-written __init__ with the signature dataclass would have generated (init=False): it is the
        # constructor, whatever the optimisation options
        return Obj(
            "dataclass",
            nm("O"),
            (F("a", x), F("tag", INT, default="1", has_default=True, default_value=1)),
            dc_init=False,
            extra_src="    def __init__(self, a, tag=1):\n        self.a = a\n        self.tag = tag + 100",
            post_effects=(("tag", lambda fs: fs["tag"] + 100),),
        )

    def two_fields(x, c):
        return Obj("dataclass", nm("O"), (F("a", x), F("b", x)))

    def frozen_dc(x, c):
        return Obj("dataclass", nm("O"), (F("a", x),), frozen=True)

    def fields_set(x, c):
        f = dfield("b", x, c)
        return f and Obj("dataclass", nm("O"), (F("a", x), f), fields_set=True)

    return {k: v for k, v in locals().items() if callable(v) and k not in ("is_obj",) and not k.startswith("_") and k != "nm"}


SHAPE_NAMES = list(object_shapes(Namer()))


# ------------------------------------------------------------------------------- predicate
def hashable_image(t: T, ctx: Ctx) -> bool:
    t = resolve(t, ctx)
    if isinstance(t, (Prim, Lit, EnumT)):
        return True
    if isinstance(t, (NewT, Con)):
        return hashable_image(t.base, ctx)
    if isinstance(t, Uni):
        return all(hashable_image(a, ctx) for a in t.alts)
    if isinstance(t, Coll):
        return t.kind in ("frozenset", "vartuple") and hashable_image(t.elt, ctx)
    if isinstance(t, Tup):
        return all(hashable_image(a, ctx) for a in t.elts)
    if isinstance(t, Obj):
        return t.frozen and all(hashable_image(f.type, ctx) for f in t.fields)
    return False  # Any, list, dict, mutable objects


def well_formed(t: T, ctx: Ctx) -> Optional[str]:
    """None when t is in the stated domain, else the reason it is excluded"""
    for x in walk(t):
        if isinstance(x, Coll) and x.kind in ("set", "frozenset", "absset"):
            if not hashable_image(x.elt, ctx):
                return "set of unhashable"
        if isinstance(x, MapT):
            k = resolve(x.k, ctx)
            kk = k
            while isinstance(kk, (NewT, Con)):
                kk = kk.base
            if not (isinstance(kk, Prim) and kk.kind == "str") and not isinstance(kk, (Lit, EnumT)):
                return "non-string mapping key"
        if isinstance(x, Obj):
            for f in x.fields:
                if f.flatten:
                    ft = resolve(f.type, ctx)
                    if not isinstance(ft, (Obj, Gen)) or (isinstance(ft, Obj) and ft.kind == "typeddict" and False):
                        return "flattened non-object"
            if sum(1 for f in x.fields if f.props == "") > 1:
                return "two additional properties fields"
            for f in x.fields:
                if f.none_as_undefined:
                    ft = resolve(f.type, ctx)
                    alts = flat_alts(ft) if isinstance(ft, Uni) else [ft]
                    if all(isinstance(a, Prim) and a.kind == "none" for a in alts):
                        return "none_as_undefined on a field whose only type is None"
    return None


# ------------------------------------------------------------------------------- enumeration
def build_env(t: T) -> Dict[str, Obj]:
    env = {}
    for x in walk(t):
        if isinstance(x, Obj):
            env[x.name] = x
    return env


def gen_types(tier: str, focus: Optional[str] = None) -> Iterator[Tuple[str, T]]:
    """(label, spec) for the whole bounded grammar of the tier, deterministic order.

    quick:    G(1) u G(2,pairs)
    thorough: G(1) u G(2) (every ctor/shape over every G(1) type)"""
    ctx = Ctx()
    # atoms
    for a in ATOM_NAMES:
        yield f"atom:{a}", atom(a, Namer())
    # G(1)
    for u in UNARY_NAMES:
        for a in ATOM_NAMES:
            nm = Namer()
            yield f"{u}[{a}]", unary_ctors(nm)[u](atom(a, nm))
    for s in SHAPE_NAMES:
        for a in ATOM_NAMES:
            nm = Namer()
            o = object_shapes(nm)[s](atom(a, nm), ctx)
            if o is not None:
                yield f"{s}[{a}]", o
    # unions of two atoms, both orders
    for a, b in itertools.permutations(ATOM_NAMES, 2):
        nm = Namer()
        yield f"union[{a},{b}]", Uni((atom(a, nm), atom(b, nm)))
    # G(2)
    inner_atoms = ATOM_CLASS_REPS if tier == "quick" else ATOM_NAMES
    outers = [("u", u) for u in UNARY_NAMES] + [("s", s) for s in SHAPE_NAMES]
    inners = [("u", u) for u in UNARY_NAMES] + [("s", s) for s in SHAPE_NAMES]
    for (ok, on), (ik, iname) in itertools.product(outers, inners):
        for a in inner_atoms:
            nm = Namer()
            base = atom(a, nm)
            if ik == "u":
                inner = unary_ctors(nm)[iname](base)
            else:
                inner = object_shapes(nm)[iname](base, ctx)
                if inner is None:
                    continue
            if ok == "u":
                outer = unary_ctors(nm)[on](inner)
            else:
                outer = object_shapes(nm)[on](inner, Ctx(env=build_env(inner)))
                if outer is None:
                    continue
            yield f"{on}[{iname}[{a}]]", outer
