import json, os
HEAD = "dc5b8cb"
W9 = {
 "C01": ("class with a flatten field whose method is built a second time from the same cached factory (per-call schema= / validators=, Annotated[Cls, schema(...)] next to the plain class, or eviction from the 128-entry method cache)", "DeserializationMethodVisitor.object: flattened aliases hoisted out of the factory closure; the hoisted value is a one-shot generator", "caught at once by C01 (constraint layers on back-references / field_cons over object shapes build a second method)", ["C01", "C06"]),
 "C02": ("mapping whose key deserialization changes the key (Enum keys, coerced int keys, converted keys) + an item with a valid key and an invalid value", "MappingMethod.deserialize rebinds key / value in place; the error is then filed under the converted key", "caught at once by C02 (constructor dict_enumkey: loc names the key of the input)", ["C02"]),
 "C03": ("coerce=True + a position accepting null + an unhashable datum (list / dict) there", "coerce(): `data in STR_NONE_VALUES` without the isinstance(str) guard hashes the datum: TypeError escapes deserialize", "see result.json (C03 quick)", ["C03"]),
 "C04": ("serialize a class (or generate its schema) once, then register a serialized method from outside the class body, then serialize again (also a subclass queried before)", "functools.lru_cache on get_serialized_methods: not known to apischema.cache.reset()", "missed by C04 (one serialization per type; C09 catches it: stale after 'serialized:DC.extra') -> C04 world `late members`: every order of 0..3 registrations (owner=, typed first parameter, alias) x observed before each registration or only at the end x 3 classes of a family x 3 ways of serializing", ["C04", "C09"]),
 "C05": ("field defaulting to Undefined whose annotation does not mention UndefinedType, left at Undefined", "ComplexField built with field.undefined (type-only) instead of type-or-default", "caught at once by C05 / C04 (shape undefined_default_plain, added after fix 7326434)", ["C05"]),
 "C06": ("same change as S9-C01 (written independently): second build of the method of a class with a flatten field, e.g. through per-call schema=", "flattened aliases hoisted as a one-shot generator", "missed by C06 (one build per type and option vector) -> second pass with constraints given at the call (schema=min_props/min_items/min_len) to deserialize and to the schema function alike", ["C06", "C01"]),
 "C07": ("exclude_defaults (setting or skip(serialization_default=True)) + a required field holding None + a class whose fields are all complex fields (TypedDict, with_fields_set)", "the `...` sentinel for 'no default' replaced by None, which is also a real default", "caught at once by C07 (shape typeddict_total under exclude vectors: keyword required)", ["C07"]),
 "C08": ("TypedDict + additional_properties=True + no_copy=True + check_type=False + every declared item identity + an undeclared item whose value is not JSON yet (tuple, enum member, object) or a non-str key", "identity shortcut for such TypedDicts in SerializationMethodVisitor.object", "missed by C08 (no undeclared items on the serialization side) -> world td_extras: 5 TypedDicts x 7 kinds of undeclared items x additional_properties x no_copy x check_type x route, all vectors equal + no aliasing under no_copy=False", ["C08"]),
 "C09": ("schema embedding a non-JSON value (schema(default=obj), examples=[obj], Literal[Enum.MEMBER]) generated once, then a change of how the class of that value serializes (exclude_none, class aliaser, serialized, serializer, order, set_object_fields), then generated again", "module-level memo of the compiled JsonSchema->version serialization method (fall_back_on_any=True) in json_schema/schema.py, out of reach of cache.reset()", "missed by C09 (no schema of its pool embedded a raw value) -> class Ex (default / examples given through schema(), Literal member) observed through dschema / sschema under 3 dialects and definitions_schema", ["C09"]),
 "C10": ("subclass + a validator reading on self a helper / property / constant defined in a base class + a structural error on an unrelated field (validators then run on ValidatorMock)", "ValidatorMock.__getattribute__ looks members up in cls.__dict__ (no MRO)", "caught at once by C10 (inherited helpers: mode override / via1, via2)", ["C10"]),
 "C11": ("definitions_schema(...) with a per-call aliaser differing from settings.aliaser", "helper extracted in json_schema/schema.py, the aliaser argument lost at the definitions_schema call site", "missed by C11 (no definitions_schema view) -> view definitions_schema.{deserialization,serialization}: equal to the inline $defs under the same aliaser, property names as expected", ["C11"]),
 "C12": ("serialization of a recursive class reached after a non-recursive sibling at the same level (value type of Dict[str, X], later element of a tuple, later alternative of a union), the class having a field conversion on a plain field whose type also has a registered serializer", "SerializationMethodVisitor._factory turned into a cached_property (memoised with the conversion of the first access; context_setter snapshots __dict__, hiding most of it)", "missed by C12 (the recursive world had its conversion on the recursive field only, under T / List) -> classes RNode and RNode2 through 13 container contexts, cold and warm caches, both directions", ["C12"]),
 "C13": ("union with two alternatives of one expected class, the value deciding (two TypedDicts, tuples of different lengths) + the same compiled method used for two values going to different alternatives", "serialization UnionMethod memoises, per class of the value, the alternative that succeeded first", "caught at once by C13 (serialization side: every value against the first class-matching alternative, several values per compiled method)", ["C13"]),
 "C14": ("one Enum class deserialized under coerce=True (memo written), then the same datum under another mode (strict, custom coercer)", "lru-cached value map shared by every LiteralMethod of an Enum class + memoisation of coerced data into it", "caught at once by C14 (world of literals under every coercion mode on one class)", ["C14"]),
 "C15": ("decorated base + undecorated subclass with an __init__ of its own + tracked set made a strict subset (unset_fields / set_fields(overwrite) / replace) + serialize with exclude_unset", "support_fields_set: marker on cls.__init__ instead of the registry looked up along the MRO", "missed by C15 (no undecorated subclass of a decorated class in the pool) -> classes UndecoratedDerived (own generated constructor: every field set at construction, as the pinned test states) and InheritsInit", ["C15"]),
 "C16": ("serialized method carrying an ordering + no field with order metadata + no class-level order", "serialize skips sort_by_order when no *field* has an ordering (methods not looked at)", "caught at once by C16 (specs ordering only a method)", ["C16"]),
 "C17": ("the same unsupported (ignored) union alternative met 4 times or more in one type graph", "recursion guard of RefsExtractor.visit_conversion moved into a contextmanager without try/finally: the counter leaks on Unsupported", "missed by C17 (ignored alternatives met at most twice) -> worlds ManyBad{1,3,4,5,8}, ManyBadList{4,6}, ManyBadNested4", ["C17"]),
 "C18": ("DRAFT_7 + dependent_required + an aliaser renaming the required (right-hand side) field", "to_json_schema_7 rebuilds the dependencies lists with str(...), which turns AliasedStr into plain str before the aliasing pass", "missed by C18 (no aliaser among its vectors) -> worlds Billing / List[Billing] / Order under aliaser=to_camel_case (call, call + all_refs, settings) x every dialect", ["C18"]),
 "C19": ("resolver with an Optional parameter without default + a second execution of the same compiled field omitting an argument an earlier one gave", "resolver_resolve: the dict of omitted-parameter Nones is precomputed and then used as the per-call values dict", "missed by C19 (each query run once, on arguments with defaults) -> operation a_opt_req + every ordered pair of the queries of one operation on one schema + both under two aliases in one document", ["C19"]),
 "C20": ("a @discriminator class exists; thread A compiles for the first time a type holding a union while thread B defines a fresh @discriminator class", "get_inherited_discriminator iterates over the registry (running Python code per entry) instead of looking bases up in it", "missed by C20 (every harness defined its classes before starting the threads) -> harness H16 (definition and first use in one thread, first use of an unrelated type in the other), scheduling points in every apischema module", ["C20"]),
}
W8_CAUGHT_BY = {"C01":["C01"],"C02":["C02"],"C03":["C03","C10"],"C04":["C04"],"C05":["C05"],"C06":["C06"],"C07":["C07"],"C08":["C08"],"C09":["C09","C05"],"C10":["C10"],"C11":["C11"],"C12":["C12"],"C13":["C13"],"C14":["C14"],"C15":["C15"],"C16":["C16"],"C17":["C17"],"C18":["C18"],"C19":["C19"],"C20":["C20"]}
W8_NEEDS = {
 "C01": "several schema(...) annotations in one Annotated, a constraint in one that is not the last",
 "C02": "array of >= 11 elements, errors at indices whose string order differs from their numeric order",
 "C03": "failing validator discarding / located at a field it does not read (infinite recursion)",
 "C04": "Deque[X] whose items need their declared type",
 "C05": "Literal of plain Enum members",
 "C07": "dependent_required whose required field can be omitted by serialization",
 "C12": "union written X | None crossing a conversion", "C17": "union written A | B carrying a discriminator",
 "C13": "discriminator(...) | schema(...) merged in one annotation",
 "C16": "aliased resolver referred to by order(after=...)",
 "C18": "keywords given through the schema= parameter of the schema functions",
 "C19": "instance of a subclass returned for a declared (non-interface) object type",
 "C20": "(class, method) memo torn between threads on the shared Any serialization method",
}
def note_b(d):
    import re
    p = os.path.join(d, "NOTES.md")
    if not os.path.exists(p): return ""
    t = open(p).read()
    m = re.search(r"\(b\)[^\n]*\n(.*?)(?=\n## |\Z)", t, re.S)
    body = re.sub(r"```.*?```", "[code]", (m.group(1) if m else ""), flags=re.S)
    return " ".join(body.split())[:400]
for w, table in ((9, W9), (8, None)):
    for i in range(1, 21):
        c = f"C{i:02d}"; d = f"seeded/S{w}-{c}"
        meta = json.load(open(d + "/meta.json"))
        res = json.load(open(d + "/result.json")) if os.path.exists(d + "/result.json") else {}
        if w == 9:
            needs, change, hist, caught = table[c]
            meta["needs_to_manifest"] = needs; meta["change"] = change; meta["detection_history"] = hist; meta["caught_by"] = caught
        else:
            meta["needs_to_manifest"] = W8_NEEDS.get(c) or note_b(d)
            meta["detection_history"] = "see DESIGN.md §10.5, wave 8"
            meta["caught_by"] = W8_CAUGHT_BY[c]
        meta["ran"] = [
            "sub-agent: pytest (283 passed) with the change; demo.py exits non-zero with the change and 0 without",
            f"tools/seed_eval.py {d} [{c}]: scratch worktree of /repo HEAD + patch; demo without / with the change; pinned tests; check(s) through VERIF_REPO (see result.json)",
        ]
        meta["base_commit"] = HEAD
        meta["confirmed"] = {k: res.get(k) for k in ("demo_exit_without_change", "demo_exit_with_change", "pytest", "repo_head") if k in res}
        json.dump(meta, open(d + "/meta.json", "w"), indent=1)
print("ok")
