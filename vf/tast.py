"""Our own type AST (TypeSpec).  The reference models interpret *these* trees; the
realiser (vf.realize) turns them into Python source that defines the real annotation.
Nothing here imports apischema or typing introspection."""
from __future__ import annotations

from dataclasses import dataclass, field
from typing import Any, Optional, Tuple


class T:
    """base class of type specs"""

    def key(self) -> str:
        return repr(self)


@dataclass(frozen=True)
class Prim(T):
    kind: str  # int float str bool none


@dataclass(frozen=True)
class AnyT(T):
    pass


@dataclass(frozen=True)
class Lit(T):
    values: Tuple[Any, ...]


@dataclass(frozen=True)
class EnumT(T):
    name: str
    members: Tuple[Tuple[str, Any], ...]  # (member name, value)


@dataclass(frozen=True)
class NewT(T):
    name: str
    base: T


@dataclass(frozen=True)
class Con(T):
    """Annotated[base, schema(**cons)]"""

    base: T
    cons: Tuple[Tuple[str, Any], ...]

    def cdict(self):
        return dict(self.cons)


@dataclass(frozen=True)
class Uni(T):
    alts: Tuple[T, ...]
    pep604: bool = False  # written A | B (types.UnionType) instead of typing.Union[A, B]


def Opt(t: T) -> Uni:
    return Uni((t, Prim("none")))


@dataclass(frozen=True)
class Coll(T):
    kind: str  # list seq set frozenset vartuple absset collection
    elt: T


@dataclass(frozen=True)
class Tup(T):
    elts: Tuple[T, ...]


@dataclass(frozen=True)
class MapT(T):
    kind: str  # dict mapping
    k: T
    v: T


@dataclass(frozen=True)
class Ref(T):
    """back-reference to an enclosing (or sibling) object spec by name"""

    name: str


@dataclass(frozen=True)
class F:
    """field of an object"""

    name: str
    type: T
    default: Any = None  # python *source expression* of the default, or None
    has_default: bool = False
    factory: Optional[str] = None  # source expr of default_factory
    alias: Optional[str] = None
    override: bool = True  # alias(override=False) when False
    alias_annotated: bool = False  # the alias metadata is carried by Annotated[type, alias(...)] instead of field(metadata=...)
    required: bool = False  # `required` metadata
    flatten: bool = False
    props: Optional[str] = None  # None / "" (properties) / pattern string
    props_infer: bool = False  # properties(...): the pattern (= props) is inferred from the key type of the mapping
    skip: Optional[str] = None  # None, "all", "deser", "ser"
    ser_if: Optional[str] = None  # source expr of predicate
    ser_default: bool = False
    none_as_undefined: bool = False
    init: bool = True
    initvar: bool = False
    fbod: bool = False  # fall_back_on_default metadata
    default_as_set: bool = False
    cons: Tuple[Tuple[str, Any], ...] = ()  # field-level schema(...) constraints
    order: Optional[str] = None  # source expr of order(...)
    default_value: Any = None  # python value of the default (model side); for factory: a fresh copy each time
    validators: Tuple[str, ...] = ()  # names of field validators (generated)
    inherited: bool = False  # declared by a (generic) base given in Obj.bases: in the model with its substituted type, not emitted

    @property
    def optional(self) -> bool:
        return (self.has_default or self.factory is not None) and not self.required

    def has_any_default(self) -> bool:
        return self.has_default or self.factory is not None


@dataclass(frozen=True)
class M:
    """serialized method / property of an object"""

    name: str
    ret: T
    body: str  # python source of the returned expression (may use self)
    fn: Any  # model side: dict of field values -> model value
    alias: Optional[str] = None
    undefined: bool = False  # return type contains UndefinedType
    prop: bool = False
    inherited: bool = False  # registered by a base class (emitted there), still a method of this class
    order: Optional[str] = None


@dataclass(frozen=True)
class Obj(T):
    kind: str  # dataclass namedtuple typeddict
    name: str
    fields: Tuple[F, ...]
    total: bool = True  # typeddict
    class_aliaser: Optional[str] = None  # None / "upper" / "prefix"
    cons: Tuple[Tuple[str, Any], ...] = ()  # class-level schema(min_props...)
    dep_req: Tuple[Tuple[str, Tuple[str, ...]], ...] = ()  # field -> required fields
    fields_set: bool = False
    post_init: Optional[str] = None  # body source of __post_init__
    bases: Tuple[str, ...] = ()  # names of base Obj specs (must be realised before)
    extra_src: str = ""  # extra class body source (serialized methods, validators...)
    frozen: bool = False
    order_src: Optional[str] = None  # class decorator order(...)
    typed_required: Tuple[str, ...] = ()  # for typeddict: names required (when mixing through inheritance)
    generic_params: Tuple[str, ...] = ()
    post_assign: Tuple[Tuple[str, str], ...] = ()  # __post_init__ semantics: target field = source field
    methods: Tuple[M, ...] = ()
    base_specs: Tuple[Any, ...] = ()  # Obj specs of the bases (same order as `bases`)
    post_effects: Tuple[Tuple[str, Any], ...] = ()  # __post_init__ semantics: target field = fn(field values)
    slots: bool = False  # @dataclass(slots=True)
    dc_init: bool = True  # False: @dataclass(init=False), the class body (extra_src) writes __init__ itself

    def key(self):
        return repr(self)


@dataclass(frozen=True)
class Gen(T):
    """Specialised generic object: obj declared with generic_params, args bound"""

    obj: Obj
    args: Tuple[T, ...]


@dataclass(frozen=True)
class TVar(T):
    name: str


@dataclass(frozen=True)
class Unsup(T):
    """Annotated[base, Unsupported]: an alternative apischema must ignore in unions"""

    base: T


@dataclass(frozen=True)
class Std(T):
    kind: str  # uuid date datetime time decimal bytes path ipv4 ... pattern


NONE = Prim("none")
INT = Prim("int")
FLOAT = Prim("float")
STR = Prim("str")
BOOL = Prim("bool")


def walk(t: T):
    """pre-order iterator over all sub-specs"""
    yield t
    if isinstance(t, (NewT, Con, Unsup)):
        yield from walk(t.base)
    elif isinstance(t, Uni):
        for a in t.alts:
            yield from walk(a)
    elif isinstance(t, Coll):
        yield from walk(t.elt)
    elif isinstance(t, Tup):
        for a in t.elts:
            yield from walk(a)
    elif isinstance(t, MapT):
        yield from walk(t.k)
        yield from walk(t.v)
    elif isinstance(t, Obj):
        for b in t.base_specs:
            yield from walk(b)
        for f in t.fields:
            yield from walk(f.type)
    elif isinstance(t, Gen):
        yield from walk(t.obj)
        for a in t.args:
            yield from walk(a)


def short(t: T) -> str:
    """compact human-readable rendering, used in evidence samples and signatures"""
    if isinstance(t, Prim):
        return t.kind
    if isinstance(t, AnyT):
        return "Any"
    if isinstance(t, Lit):
        return "Lit" + repr(list(t.values))
    if isinstance(t, EnumT):
        return "Enum" + repr([v for _, v in t.members])
    if isinstance(t, NewT):
        return f"New({short(t.base)})"
    if isinstance(t, Con):
        return f"Con({short(t.base)},{','.join(f'{k}={v}' for k, v in t.cons)})"
    if isinstance(t, Uni):
        if len(t.alts) == 2 and t.alts[1] == NONE:
            return f"Opt({short(t.alts[0])})"
        return "Uni(" + ",".join(map(short, t.alts)) + ")"
    if isinstance(t, Coll):
        return f"{t.kind}({short(t.elt)})"
    if isinstance(t, Tup):
        return "Tup(" + ",".join(map(short, t.elts)) + ")"
    if isinstance(t, MapT):
        return f"{t.kind}({short(t.k)},{short(t.v)})"
    if isinstance(t, Ref):
        return f"Ref({t.name})"
    if isinstance(t, Obj):
        fs = []
        for f in t.fields:
            tags = []
            if f.has_default or f.factory:
                tags.append("d")
            if f.alias:
                tags.append("a=" + f.alias)
            if f.flatten:
                tags.append("flat")
            if f.props is not None:
                tags.append("props" + (f"({f.props})" if f.props else ""))
            if f.required:
                tags.append("req")
            if f.skip:
                tags.append("skip=" + f.skip)
            if f.none_as_undefined:
                tags.append("nau")
            if not f.init:
                tags.append("noinit")
            if f.initvar:
                tags.append("initvar")
            if f.fbod:
                tags.append("fbod")
            if f.cons:
                tags.append("cons")
            fs.append(f"{f.name}:{short(f.type)}" + ("[" + ",".join(tags) + "]" if tags else ""))
        extra = ""
        if t.class_aliaser:
            extra += f"@{t.class_aliaser}"
        if t.cons:
            extra += "+cons"
        if t.dep_req:
            extra += "+depreq"
        return f"{t.kind[:2]}:{t.name}{extra}{{" + ";".join(fs) + "}"
    if isinstance(t, Gen):
        return f"{short(t.obj)}[{','.join(map(short, t.args))}]"
    if isinstance(t, TVar):
        return "~" + t.name
    if isinstance(t, Std):
        return "std:" + t.kind
    if isinstance(t, Unsup):
        return f"Unsup({short(t.base)})"
    return repr(t)


def node_kind(t: T) -> str:
    """constructor class used in signatures / pair coverage"""
    if isinstance(t, Prim):
        return t.kind
    if isinstance(t, Uni) and len(t.alts) == 2 and NONE in t.alts:
        return "Opt"
    if isinstance(t, Coll):
        return t.kind
    if isinstance(t, Obj):
        return "Obj:" + t.kind
    return type(t).__name__
