"""C08 — options that are optimizations never change results.
E1 with a differential oracle: every option vector is compared with the all-default vector on the
same (type, datum / value), on the real code."""
from __future__ import annotations

import copy
import dataclasses
import itertools
import json
from typing import Any, List, Optional, Set

from .. import infra
from ..data import enumerate_data, get_at as dc_get, positions as dc_positions, set_at as dc_set
from ..grammar import gen_types, well_formed
from ..refmodel.deser import Ctx
from ..tast import AnyT, short, walk
from . import deser_common as dc
from .c04 import build_value, values_of

import apischema
from apischema import PassThroughOptions, ValidationError, serialization_default, settings

PROP = "C08"
RULE = (
    "deserialization: every type of the grammar (level<=1; level 2 over one / four atom representatives) x every datum at "
    "<=1 deviation x {no_copy} x {override_dataclass_constructors} x {deserialize(), precomputed deserialization_method} "
    "compared with the default vector: same verdict, same typed value (classes at every position), identical errors list; "
    "no_copy=False results share no mutable container with the input (types without Any), the input is never modified. "
    "serialization: every model-built value x {no_copy} x {check_type} x {function, precomputed method} x all 32 "
    "PassThroughOptions flag vectors (+ a `types` set / predicate): equal to the reference output once passed-through "
    "leaves are completed by json.dumps(default=serialization_default()). Discriminated unions (C13's world) under "
    "the deserialization option vectors; converters handing out containers of the value (registered / field / dynamic) "
    "under no_copy. distinct_nontrivial counts distinct "
    "(ctor-pair shape, option vector, verdict / value index) tuples."
)


def tsig(x, depth=0):
    """structure with runtime classes"""
    if depth > 40:
        return "deep"
    if dataclasses.is_dataclass(x) and not isinstance(x, type):
        d = {k: v for k, v in vars(x).items() if not k.startswith("_apischema")}
        fs = vars(x).get("_apischema_fields_set")
        return (type(x).__name__, tuple(sorted((k, tsig(v, depth + 1)) for k, v in d.items())), tuple(sorted(fs)) if fs is not None else None)
    if isinstance(x, dict):
        return ("dict", type(x).__name__, tuple((tsig(k, depth + 1), tsig(v, depth + 1)) for k, v in x.items()))
    if isinstance(x, (list, tuple)):
        return (type(x).__name__, tuple(tsig(v, depth + 1) for v in x))
    if isinstance(x, (set, frozenset)):
        return (type(x).__name__, tuple(sorted((tsig(v, depth + 1) for v in x), key=repr)))
    if isinstance(x, float) and x != x:
        return ("float", "nan")
    return (type(x).__name__, repr(x))


def key_order(x, depth=0):
    if depth > 40:
        return None
    if isinstance(x, dict):
        return [(k, key_order(v, depth + 1)) for k, v in x.items()]
    if isinstance(x, (list, tuple)):
        return [key_order(v, depth + 1) for v in x]
    return None


def containers(x, acc: Set[int], depth=0):
    if depth > 40:
        return
    if isinstance(x, (list, dict, set)):
        acc.add(id(x))
    if isinstance(x, dict):
        for v in x.values():
            containers(v, acc, depth + 1)
    elif isinstance(x, (list, tuple, set, frozenset)):
        for v in x:
            containers(v, acc, depth + 1)
    elif dataclasses.is_dataclass(x) and not isinstance(x, type):
        for v in vars(x).values():
            containers(v, acc, depth + 1)


def outcome(kind, out):
    if kind == "ok":
        return ("ok", tsig(out))
    if kind == "err":
        # the same entries; the order of the messages of one location is not compared (the by-type union shortcut
        # and try-each order them differently, see C02), the order of the list is C02's matter
        return ("err", repr(sorted(({"loc": e["loc"], "err": e["err"]} for e in out.errors), key=lambda e: (repr(e["loc"]), e["err"]))))
    return ("exc", type(out).__name__)


def run_deser(case: dc.Case, rz, label, spec, st, tier):
    _run_deser(case, rz, label, spec, st, tier, False)
    if "typeddict" in label:
        # a TypedDict keeps its additional properties: they are part of the result too
        _run_deser(case, rz, label, spec, st, tier, True)


def _run_deser(case: dc.Case, rz, label, spec, st, tier, ap):
    has_any = any(isinstance(x, AnyT) for x in walk(spec))
    ctx = case.ctx(ap, False, "id")
    vectors = list(itertools.product((True, False), (False, True), ("method", "function")))  # no_copy, override, route
    methods = {}
    for nc, ov, route in vectors:
        settings.deserialization.override_dataclass_constructors = ov
        try:
            if route == "method":
                methods[(nc, ov, route)] = apischema.deserialization_method(rz.tp, no_copy=nc, additional_properties=ap)
            else:
                methods[(nc, ov, route)] = (lambda nc=nc, ov=ov: (lambda d: _call_function(rz.tp, d, nc, ov, ap)))()
        except Exception:
            st.count("compile_error(C01 reports it)")
            settings.deserialization.override_dataclass_constructors = False
            return
    settings.deserialization.override_dataclass_constructors = False
    # deserialization pass_through: data are JSON data (no instance of a named type in them), hence the
    # type-check wrappers must fall back on the ordinary method everywhere: identical results
    mod_classes = {v for v in vars(rz.module).values() if isinstance(v, type) and getattr(v, "__module__", None) == rz.module.__name__}
    for nc in (True, False):
        # pt_all: every class JSON data cannot be an instance of (a dict *is* a Mapping, a str *is* a Sequence:
        # passing those through unchecked is what such a predicate would ask for), plus Any
        for pname, pt in (("pt_all", lambda cls: cls is Any or getattr(cls, "__module__", "") not in ("builtins", "collections.abc", "typing", "collections")), ("pt_types", mod_classes or {int})):
            try:
                methods[(nc, False, "method+" + pname)] = apischema.deserialization_method(rz.tp, no_copy=nc, pass_through=pt, additional_properties=ap)
            except Exception as e:
                st.violation({"label": label, "type": short(spec), "options": [nc, False, pname], "signature": {"kind": "deser_pass_through_compile", "exc": type(e).__name__, "option": pname, "has_any": has_any}, "what": f"deserialization_method(pass_through={pname}) raised {e!r}"[:300], "source": rz.source})
    ref_key = (True, False, "method")  # library defaults
    def data():
        for dev, d in enumerate_data(spec, ctx, k=1, wide=dc.level_of(label) <= 1):
            yield dev, d
            if ap:
                # the additional property carrying containers of its own
                for path in dc_positions(d):
                    cur = dc_get(d, path)
                    if isinstance(cur, dict) and cur.get("zz") == 0:
                        yield dev, dc_set(d, path, dict(cur, zz=[{"k": [1]}]))

    for dev, d in data():
        d0 = copy.deepcopy(d)
        ref = outcome(*dc.run_impl(methods[ref_key], d))
        for key, m in methods.items():
            nc, ov, route = key
            dd = copy.deepcopy(d0)
            before = tsig(dd)
            kind, out = dc.run_impl(m, dd)
            oc = outcome(kind, out)
            st.case(dc.shape_of(label), key, oc[0], type(d).__name__)
            base = {"label": label, "type": short(spec), "options": [nc, ov, route] + (["additional_properties"] if ap else []), "datum": repr(d0)[:300]}
            if oc != ref:
                st.violation(
                    dict(
                        base,
                        signature={"kind": "deser_option_changes_result", "option": "+".join(n for n, on in (("override_dataclass_constructors", ov), ("no_copy=False", not nc), ("function", route == "function"), ("pass_through:all", route.endswith("pt_all")), ("pass_through:types", route.endswith("pt_types"))) if on), "shape": dc.shape_of(label), "verdicts": [ref[0], oc[0]]},
                        what=f"options no_copy={nc} override_ctor={ov} via {route}: {str(oc)[:200]} but default gives {str(ref)[:200]}",
                        source=rz.source,
                    )
                )
                continue
            if tsig(dd) != before:
                st.violation(dict(base, signature={"kind": "input_modified", "no_copy": nc, "shape": dc.shape_of(label)}, what=f"input modified by deserialization (no_copy={nc})", source=rz.source))
            if kind == "ok" and not nc and "pt_" not in route:  # pass_through returns instances as they are
                a, b = set(), set()
                containers(dd, a)
                containers(out, b)
                if a & b:
                    st.violation(dict(base, signature={"kind": "aliasing_with_no_copy_false", "shape": dc.shape_of(label)}, what=f"no_copy=False result shares a mutable container with the input: {out!r}"[:300], source=rz.source))


def _call_function(tp, d, nc, ov, ap=False):
    settings.deserialization.override_dataclass_constructors = ov
    try:
        return apischema.deserialize(tp, d, no_copy=nc, additional_properties=ap)
    finally:
        settings.deserialization.override_dataclass_constructors = False


PT_FLAGS = ["any", "collections", "dataclasses", "enums", "tuple"]


def complete(x, kw, depth=0, native=False):
    """complete passed-through leaves the way json.dumps(default=serialization_default()) would
    (NamedTuples, which json would emit as arrays without calling `default`, go through the
    default serialization too)"""
    if depth > 40:
        raise ValueError("too deep")
    if x is None or type(x) in (bool, int, float, str):
        return x
    if type(x) is list or type(x) is tuple:
        return [complete(v, kw, depth + 1, native) for v in x]
    if type(x) is dict:
        # a passed-through named type can be a key too (Dict[SomeEnum, ...] with enums=True): the property
        # leaves named types untouched wherever they are, the default serialization completes them
        return {(k if type(k) is str else complete(k, kw, depth + 1, native)): complete(v, kw, depth + 1, native) for k, v in x.items()}
    if native and dataclasses.is_dataclass(x) and not isinstance(x, type):
        # dataclasses=True: what a JSON library with native dataclass support (orjson, the documented use of dataclasses=True) emits:
        # every field under its name, in declaration order
        return {f.name: complete(getattr(x, f.name), kw, depth + 1, native) for f in dataclasses.fields(x) if not f.name.startswith("_")}
    return complete(serialization_default(**kw)(x), kw, depth + 1, native)


def run_ser(case: dc.Case, rz, label, spec, st, tier, ctx0):
    vals = values_of(spec, ctx0)
    if not vals:
        return
    lvl = dc.level_of(label)
    reals = []
    for v in vals[:6]:
        try:
            reals.append(build_value(spec, v, rz.module, ctx0))
        except Exception:
            pass
    if not reals:
        return
    base_kw = {}
    try:
        ref_m = apischema.serialization_method(rz.tp)
    except Exception:
        st.count("compile_error(C04 reports it)")
        return
    pts = [PassThroughOptions(**dict(zip(PT_FLAGS, bits))) for bits in itertools.product((False, True), repeat=5)]
    if lvl > 1 and tier == "quick":
        pts = [pts[0], pts[-1]] + [PassThroughOptions(**{f: True}) for f in PT_FLAGS]
    pts.append(PassThroughOptions(types=(int, str)))
    pts.append(PassThroughOptions(types=lambda tp: isinstance(tp, type) and dataclasses.is_dataclass(tp)))
    vectors = []
    for nc in (True, False):
        for ct in (False, True):
            vectors.append(("plain", dict(no_copy=nc, check_type=ct)))
    for pt in pts:
        vectors.append(("pt", dict(pass_through=pt)))
    for vi, real in enumerate(reals):
        try:
            ref = ref_m(real)
            ref_j = ref
        except Exception:
            st.count("reference_serialization_failed(C04 reports it)")
            continue
        snap = tsig(real)
        for tag, kw in vectors:
            base = {"label": label, "type": short(spec), "options": repr(kw)[:200], "value": repr(real)[:300]}
            for route in ("method", "function"):
                try:
                    out = apischema.serialization_method(rz.tp, **kw)(real) if route == "method" else apischema.serialize(rz.tp, real, **kw)
                except Exception as e:
                    st.violation(
                        dict(
                            base,
                            signature={"kind": "ser_option_exception", "exc": type(e).__name__, "option": _optclass(kw), "flattened": "flat_" in label},
                            what=f"serialize with {kw!r} raised {e!r}"[:300],
                            source=rz.source,
                        )
                    )
                    break
                st.case(dc.shape_of(label), _optname(kw) + repr(sorted(kw.items(), key=str))[:80], vi, route)
                try:
                    if tag == "plain":
                        ok = out == ref and tsig(out) == tsig(ref)
                        got = out
                    else:
                        got = complete(out, {}, native=bool(kw["pass_through"].dataclasses and not kw["pass_through"].any))  # with any=True whatever sits at an Any position is the JSON library's business
                        # same JSON text: equal, and the keys of every object in the same order
                        ok = got == ref_j and key_order(got) == key_order(ref_j)
                except Exception as e:
                    ok, got = False, f"completion failed: {e!r}"
                if not ok:
                    st.violation(
                        dict(
                            base,
                            signature={"kind": "ser_option_changes_result", "option": _optclass(kw), "shape": dc.shape_of(label)},
                            what=f"serialize with {kw!r} via {route} gives {got!r} but default gives {ref!r}"[:400],
                            source=rz.source,
                        )
                    )
                    break
            if tsig(real) != snap:
                st.violation(dict(base, signature={"kind": "value_modified_by_serialization", "shape": dc.shape_of(label)}, what="serialization modified the value", source=rz.source))


def _optname(kw):
    if "pass_through" in kw:
        pt = kw["pass_through"]
        flags = [f for f in PT_FLAGS if getattr(pt, f)]
        return "pass_through:" + ("+".join(flags) if flags else ("types" if pt.types else "none"))
    return "no_copy=%s,check_type=%s" % (kw.get("no_copy"), kw.get("check_type"))


def _optclass(kw):
    """coarse option class for signatures: the flag that matters first"""
    if "pass_through" in kw:
        pt = kw["pass_through"]
        for f in ("dataclasses", "enums", "collections", "tuple", "any"):
            if getattr(pt, f):
                return "pass_through:" + f
        return "pass_through:types" if pt.types else "pass_through:none"
    return "no_copy=%s,check_type=%s" % (kw.get("no_copy"), kw.get("check_type"))


def run_type(i, label, spec, tier, st):
    env = dc.build_env(spec)
    ctx0 = Ctx(env=env)
    if well_formed(spec, ctx0):
        return
    case = dc.Case(label, spec)
    try:
        rz = case.realize()
    except Exception as e:
        st.violation({"label": label, "signature": {"kind": "realize_error"}, "what": repr(e)[:300], "harness_error": True, "traceback": repr(e)})
        return
    st.count("types")
    if i % 101 == 0:
        st.sample({"type": short(spec), "label": label})
    apischema.cache.reset()
    if not (tier == "quick" and dc.level_of(label) > 1):
        # quick: nesting 2 only on the serialization side (whole-sub-tree predicates: check-only / identity
        # propagation); the deserialization side of nesting 2 is in the thorough tier
        run_deser(case, rz, label, spec, st, tier)
    run_ser(case, rz, label, spec, st, tier, ctx0)
    case.drop()


def select(tier, label):
    if "union_str[seq" in label:
        return False  # a str value under Union[Sequence[...], str] (see C04)
    if dc.level_of(label) <= 1:
        return True
    if tier == "quick":
        # nesting 2 over an atom that needs a transformation both ways (enum: member <-> value): the compile-time predicates on whole sub-trees only show on mixed sub-trees
        return label.endswith("[enum_str]]")
    return True


def run_discriminated(st):
    """discriminated unions (C13's world) under the optimisation options: every (no_copy, override_dataclass_constructors,
    route) vector gives what the default vector gives, for every mapped key x body"""
    from ..realize import PRELUDE, exec_source
    from .c13 import DISC_SRC

    mod = exec_source(PRELUDE + DISC_SRC)
    bodies = [{}, {"x": 1}, {"x": "bad"}, {"x": 1, "zz": 0}, {"n": 2}, {"n": 2, "x": 1}, {"v": 3}, {"v": "bad"}]
    try:
        for name, (utp, key, mapping, declares) in mod.EXPECT.items():
            methods = {}
            for nc, ov, route in itertools.product((True, False), (False, True), ("method", "function")):
                settings.deserialization.override_dataclass_constructors = ov
                try:
                    if route == "method":
                        methods[(nc, ov, route)] = apischema.deserialization_method(utp, no_copy=nc)
                    else:
                        methods[(nc, ov, route)] = (lambda nc=nc, ov=ov: (lambda d: _call_function(utp, d, nc, ov)))()
                except Exception as e:
                    st.violation({"label": "disc:" + name, "signature": {"kind": "disc_compile", "union": name, "options": [nc, ov]}, "what": f"{name}: {e!r}"[:300]})
                finally:
                    settings.deserialization.override_dataclass_constructors = False
            for k in list(mapping) + ["nope", "<absent>"]:
                for body in bodies:
                    d0 = dict(body)
                    if k != "<absent>":
                        d0[key] = k
                    ref = outcome(*dc.run_impl(methods[(True, False, "method")], dict(d0)))
                    for opt, m in methods.items():
                        dd = dict(d0)
                        oc = outcome(*dc.run_impl(m, dd))
                        st.case("disc", name, opt, k, tuple(sorted(body)))
                        if oc != ref:
                            st.violation({"label": "disc:" + name, "datum": repr(d0), "options": list(opt), "signature": {"kind": "deser_option_changes_result", "option": "+".join(n for n, on in (("override_dataclass_constructors", opt[1]), ("no_copy=False", not opt[0]), ("function", opt[2] == "function")) if on), "shape": "disc:" + name, "verdicts": [ref[0], oc[0]]}, "what": f"{name} <- {d0!r} with no_copy={opt[0]} override_ctor={opt[1]} via {opt[2]}: {str(oc)[:200]} but default gives {str(ref)[:200]}"})
                        if dd != d0:
                            st.violation({"label": "disc:" + name, "datum": repr(d0), "signature": {"kind": "input_modified", "no_copy": opt[0], "shape": "disc:" + name}, "what": f"input modified by deserialization: {dd!r}"})
    finally:
        dc.world.restore_settings()
        import sys

        sys.modules.pop(mod.__name__, None)


CONV_SRC = '''
class Bag:
    def __init__(self, items): self.items = items
@serializer
def bag_items(b: Bag) -> List[int]: return b.items          # hands out a container the value holds
@dataclass
class Table:
    rows: Dict[str, List[int]] = field(default_factory=dict)
def table_rows(t: Table) -> Dict[str, List[int]]: return t.rows
@dataclass
class HasTable:
    t: Table = field(default_factory=Table, metadata=conversion(serialization=table_rows))
'''


def run_serialization_conversions(st):
    """converters handing out containers held by the value (registered serializer, field conversion, dynamic conversion): with
    no_copy=False the result shares none of them with the value, whatever the route; equal results under every vector"""
    from ..realize import PRELUDE, exec_source

    mod = exec_source(PRELUDE + CONV_SRC)
    cases = [
        ("registered", mod.Bag, lambda: mod.Bag([1, 2]), {}),
        ("registered_in_list", List[mod.Bag], lambda: [mod.Bag([1]), mod.Bag([2, 3])], {}),
        ("field_conversion", mod.HasTable, lambda: mod.HasTable(mod.Table({"a": [1], "b": [2, 3]})), {}),
        ("dynamic", mod.Table, lambda: mod.Table({"a": [1]}), {"conversion": mod.table_rows}),
    ]
    for name, tp, mk, extra in cases:
        ref = apischema.serialize(tp, mk(), **extra)
        for nc in (True, False):
            for route in ("method", "function"):
                v = mk()
                before = set()
                containers(v.__dict__ if hasattr(v, "__dict__") else v, before)
                if isinstance(v, list):
                    for x in v:
                        containers(x.__dict__, before)
                out = apischema.serialization_method(tp, no_copy=nc, **extra)(v) if route == "method" else apischema.serialize(tp, v, no_copy=nc, **extra)
                st.case("ser_conversion", name, nc, route)
                if out != ref:
                    st.violation({"label": "conv:" + name, "options": [nc, route], "signature": {"kind": "ser_option_changes_result", "option": f"no_copy={nc}", "shape": "conv:" + name}, "what": f"{name}: serialize with no_copy={nc} via {route} gives {out!r}, default gives {ref!r}"})
                if not nc:
                    got = set()
                    containers(out, got)
                    if before & got:
                        st.violation({"label": "conv:" + name, "options": [nc, route], "signature": {"kind": "aliasing_with_no_copy_false", "shape": "conv:" + name, "side": "serialization"}, "what": f"{name}: with no_copy=False the serialized result shares a mutable container with the value (via {route}): {out!r}"})
    import sys

    sys.modules.pop(mod.__name__, None)
    apischema.cache.reset()


TD_EXTRA_SRC = """
class Hue(Enum):
    RED = "red"
@dataclass
class Acct:
    n: int = 0
class AllPlain(TypedDict):
    x: int
    names: List[str]
class Partial(TypedDict, total=False):
    x: int
    tags: Dict[str, str]
class WithEnum(TypedDict):
    x: int
    hue: Hue
class WithObj(TypedDict):
    x: int
    acct: Acct
BASES = {
    "AllPlain": (AllPlain, {"x": 1, "names": ["a"]}),
    "Partial": (Partial, {"x": 1}),
    "Partial+tags": (Partial, {"tags": {"k": "v"}}),
    "WithEnum": (WithEnum, {"x": 1, "hue": Hue.RED}),
    "WithObj": (WithObj, {"x": 1, "acct": Acct(2)}),
}
EXTRAS = {
    "none": {},
    "json": {"zz": 1, "yy": [1, {"a": None}]},
    "tuple": {"pair": (1, 2)},
    "enum": {"color": Hue.RED},
    "object": {"who": Acct(3)},
    "nested": {"deep": {"k": [(1,), Hue.RED]}},
    "set": {"s": frozenset([1])},
}
"""


def run_typeddict_extras(st):
    """TypedDicts serialized with additional_properties on / off, the value carrying undeclared items whose values are not
    JSON yet (tuples, enum members, objects, nested): every (no_copy, check_type, route) vector gives the same, JSON-only,
    result; with no_copy=False nothing mutable is shared with the value"""
    from ..realize import PRELUDE, exec_source

    mod = exec_source(PRELUDE + TD_EXTRA_SRC)
    try:
        for bname, (tp, base_items) in mod.BASES.items():
            for ename, extra in mod.EXTRAS.items():
                for ap in (False, True):
                    results = {}
                    for nc, ct, route in itertools.product((False, True), (True, False), ("method", "function")):
                        v = dict(base_items, **extra)
                        st.case("td_extras", bname, ename, ap, nc, ct, route)
                        try:
                            if route == "method":
                                out = apischema.serialization_method(tp, additional_properties=ap, no_copy=nc, check_type=ct)(v)
                            else:
                                out = apischema.serialize(tp, v, additional_properties=ap, no_copy=nc, check_type=ct)
                            results[(nc, ct, route)] = ("ok", out, tsig(out))
                        except Exception as e:
                            results[(nc, ct, route)] = ("exc", type(e).__name__, None)
                        if not nc and results[(nc, ct, route)][0] == "ok":
                            before, got = set(), set()
                            containers(v, before)
                            containers(out, got)
                            if before & got:
                                st.violation({"label": "td_extras:" + bname, "options": [ap, nc, ct, route], "signature": {"kind": "aliasing_with_no_copy_false", "shape": "td_extras", "side": "serialization"}, "what": f"{bname} + extras {ename}: with no_copy=False the result shares a container with the value: {out!r}"[:300]})
                    ref_key = (False, True, "method")
                    ref = results[ref_key]
                    for k, r in results.items():
                        if r != ref:
                            st.violation({"label": "td_extras:" + bname, "options": [ap] + list(k), "signature": {"kind": "ser_option_changes_result", "option": "no_copy=%s,check_type=%s" % k[:2], "shape": "td_extras", "additional_properties": ap}, "what": f"serialize({bname}, items + extras {ename}, additional_properties={ap}) with no_copy={k[0]} check_type={k[1]} via {k[2]} gives {r[:2]!r} but no_copy=False check_type=True gives {ref[:2]!r}"[:500]})
                            break
    finally:
        import sys

        sys.modules.pop(mod.__name__, None)
        apischema.cache.reset()


def work(tier, widx, nworkers, st, extra):
    import os

    if widx == (1 % nworkers) and os.environ.get("VERIF_ONLY") in (None, "", "disc", "conv"):
        try:
            run_serialization_conversions(st)
        except Exception:
            import traceback

            st.violation({"signature": {"kind": "harness_error"}, "harness_error": True, "what": "serialization conversions", "traceback": traceback.format_exc()[-2000:]})

    if widx == (2 % nworkers) and os.environ.get("VERIF_ONLY") in (None, "", "disc", "td_extras"):
        try:
            run_typeddict_extras(st)
        except Exception:
            import traceback

            st.violation({"signature": {"kind": "harness_error"}, "harness_error": True, "what": "typeddict extras", "traceback": traceback.format_exc()[-2000:]})

    if widx == 0 and os.environ.get("VERIF_ONLY") in (None, "", "disc"):
        try:
            run_discriminated(st)
        except Exception:
            import traceback

            st.violation({"signature": {"kind": "harness_error"}, "harness_error": True, "what": "discriminated world", "traceback": traceback.format_exc()[-2000:]})
    try:
        for i, label, spec in dc.my_types("quick", widx, nworkers):
            if select(tier, label):
                run_type(i, label, spec, tier, st)
    finally:
        dc.world.restore_settings()


def main(tier: str, t0: float) -> int:
    st = infra.run_pool("vf.checks.c08", tier)
    return infra.finish(
        PROP,
        tier,
        st,
        t0,
        rule=RULE,
        coverage_extra={"exhaustive": True, "bounds": {"nesting": 2, "deviations": 1, "values_per_type": 6}},
        assumptions=[
            "the reference vector is the library default (no_copy=True, no constructor override, precomputed method)",
            "deserialization pass_through is exercised on JSON data only, with predicates / class sets that no JSON datum is an instance of",
        ],
    )


def replay(path: str) -> int:
    v = json.load(open(path))
    st = infra.Stats()
    if v["label"].startswith("disc:"):
        run_discriminated(st)
    for lab, spec in gen_types("quick"):
        if lab == v["label"]:
            try:
                run_type(1, lab, spec, "thorough", st)
            finally:
                dc.world.restore_settings()
            break
    hits = [x for x in st.violations if x.get("signature") == v.get("signature")]
    for x in hits[:3]:
        print(f"VIOLATION property=C08 replay={path}")
        print(" ", x["what"])
    return 1 if hits else 0
