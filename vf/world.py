"""Import apischema from the working tree under test and give checks a way to restore the
global configuration.  VERIF_REPO (default /repo) selects the tree; it is put first on sys.path
so that mutation campaigns can aim the very same checks at a scratch copy."""
from __future__ import annotations

import os
import sys

VERIF_DIR = os.path.dirname(os.path.dirname(os.path.abspath(__file__)))
REPO = os.environ.get("VERIF_REPO", "/repo")
_vendor = os.path.join(VERIF_DIR, "_vendor")

if REPO not in sys.path[:1]:
    sys.path.insert(0, REPO)
if os.path.isdir(_vendor) and _vendor not in sys.path:
    sys.path.insert(1, _vendor)

import apischema  # noqa: E402

assert os.path.realpath(os.path.dirname(os.path.dirname(apischema.__file__))) == os.path.realpath(REPO), (
    apischema.__file__,
    REPO,
)

from apischema import settings  # noqa: E402
from apischema import cache as _cache  # noqa: E402


def _snapshot(cls):
    return {k: v for k, v in vars(cls).items() if not k.startswith("__") and not isinstance(v, type)}


_SETTINGS_CLASSES = [settings, settings.base_schema, settings.errors, settings.deserialization, settings.serialization]
_SNAP = [(c, _snapshot(c)) for c in _SETTINGS_CLASSES]


def restore_settings():
    for cls, snap in _SNAP:
        for k, v in snap.items():
            if vars(cls).get(k, None) is not v:
                type.__setattr__(cls, k, v)
    _cache.reset()


def reset_caches():
    _cache.reset()


def repo_head() -> str:
    import subprocess

    try:
        return subprocess.run(["git", "-C", REPO, "rev-parse", "--short", "HEAD"], capture_output=True, text=True).stdout.strip()
    except Exception:
        return "?"


def _registries():
    import apischema.aliases as al
    import apischema.conversions.converters as cv
    import apischema.dependencies as dp
    import apischema.discriminators as ds
    import apischema.objects.fields as of
    import apischema.ordering as od
    import apischema.schemas as sc
    import apischema.serialization.serialized_methods as sm
    import apischema.type_names as tn
    import apischema.validation.validators as vv

    regs = [al._class_aliasers, cv._deserializers, cv._serializers, dp._dependent_requireds, ds._discriminators, of._class_fields,
            od._order_overriding, sc._schemas, sm._serialized_methods, tn._type_names, vv._validators]
    try:
        import apischema.graphql.resolvers as gr

        regs.append(gr._resolvers)
    except Exception:
        pass
    return [getattr(r, "wrapped", r) for r in regs]


def purge_module(mod_name: str):
    """forget every registry entry keyed by a class / function of a generated module (the registries
    are default-dicts that grow with every class ever visited; with classes hashing by name — E3 —
    the collisions make every lookup linear in the number of dead classes)"""
    import apischema.validation.dependencies as vd

    def mine(k):
        if getattr(k, "__module__", None) == mod_name:
            return True
        if getattr(k, "__module__", None) == "typing" or isinstance(k, tuple):  # Optional[vfgen_3.Node], ...
            try:
                return (mod_name + ".") in repr(k)
            except Exception:
                return False
        return False

    for reg in _registries():
        for k in [k for k in list(reg) if mine(k)]:
            try:
                del reg[k]
            except Exception:
                pass
    for k in [k for k in list(vd.cache) if mine(k)]:
        vd.cache.pop(k, None)
    # per-factory lru caches that apischema.cache.reset() does not know about (bounded, but they pin
    # up to 128 dead generated classes each)
    import apischema.deserialization as _d

    for owner in (_d.DeserializationMethodFactory,):
        for v in list(vars(owner).values()):
            cc = getattr(v, "cache_clear", None)
            if cc is not None:
                try:
                    cc()
                except Exception:
                    pass
