"""C14 — coercion only widens acceptance, per the documented table.
E1: types x data enriched with coercible strings x coercion modes; relational oracle (strict vs
coerce on the real code) + reference model extended with the documented coercion table."""
from __future__ import annotations

import json
from typing import Annotated, Any, Union

from .. import infra
from ..data import enumerate_data
from ..grammar import gen_types, well_formed
from ..refmodel.deser import UNSPEC, Ctx, conform
from ..tast import Uni, short, walk
from ..values import match
from . import deser_common as dc

import apischema
from apischema import ValidationError, settings

PROP = "C14"
RULE = (
    "[plus instances of passed-through classes (pass_through=) under every coercion mode: returned as in strict mode] "
    "[plus every Literal type of 2..3 values drawn in every order from {1, True, '1', '1.0', 1.5, 'a', 0, False} x 70 data: "
    "the classes are tried in the order of the values, a refusing class does not stop the search, a rejection has one entry] "
    "[plus a world of discriminated unions / classes, plain and recursive (alternative = the class itself, reached as a "
    "back-reference), on nested data: strict-accepted data stay accepted with an equal value under coerce=True and under "
    "the right-typed / raising custom coercers] "
    "types: grammar of C01 (level<=1 fully; level 2 over one atom representative in quick, four in thorough); data: C01 "
    "data (k<=1) enriched at every position with numeric strings, every word of the boolean table in three casings, "
    "near-misses, '' and whitespace; modes: coerce=True, settings.deserialization.coerce=True, a custom coercer returning "
    "right-typed values, one returning wrong-typed values, one raising ValidationError. Oracle: strict-accepted => "
    "coerce-accepted (equal typed value when union-free); coerce outcome == reference model extended with the documented "
    "table (int()/float()/str() among str/int/float, boolean words, int->bool, ''->None) at primitive positions only; "
    "settings route == parameter route; wrong-typed / raising coercers give exactly the strict outcome (same verdict, same value, "
    "errors at the same locations). "
    "distinct_nontrivial counts distinct (ctor-pair shape, mode, datum class at root, strict verdict, coerce verdict)."
)

WORDS = ["0", "1", "f", "t", "n", "y", "no", "yes", "false", "true", "off", "on", "ko", "ok"]
EXTRA = (
    ["1", "1.5", " 1 ", "1e3", "0x1", "-2", "2", "abc", " ", "", "nan", "maybe", "2", "tru", "None", "null"]
    + WORDS
    + [w.upper() for w in WORDS]
    + [w.capitalize() for w in WORDS if len(w) > 1]
)

_DEFAULTS = {int: 0, float: 0.5, str: "s", bool: False, list: [], dict: {}, type(None): None}


def _fits(cls, data) -> bool:
    """data is already of the JSON class the position expects (ints fit float positions)"""
    if cls is type(None):
        return data is None
    if cls is float:
        return isinstance(data, (int, float)) and not isinstance(data, bool)
    if cls is int:
        return isinstance(data, int) and not isinstance(data, bool)
    return isinstance(data, cls)


def c_right(cls, data):
    if _fits(cls, data):
        return data
    v = _DEFAULTS[cls]
    return type(v)(v) if isinstance(v, (list, dict)) else v


def c_wrong(cls, data):
    if _fits(cls, data):
        return data
    return 0 if cls is str else "wrong"


def c_wrong_container(cls, data):
    """wrong-typed result that cannot even be hashed (a JSON-decoding coercer handing back what it parsed)"""
    if _fits(cls, data):
        return data
    return [1] if cls is dict else {"w": 1}


def c_raise(cls, data):
    if _fits(cls, data):
        return data
    raise ValidationError("custom coercer refuses")


def outcome(kind, out):
    return kind


def run_type(i, label, spec, tier, st):
    env_ctx = Ctx(env=dc.build_env(spec))
    if well_formed(spec, env_ctx):
        return
    case = dc.Case(label, spec)
    try:
        rz = case.realize()
    except Exception as e:
        st.violation({"label": label, "signature": {"kind": "realize_error"}, "what": repr(e)[:300], "harness_error": True, "traceback": repr(e)})
        return
    st.count("types")
    if i % 101 == 0:
        st.sample({"type": short(spec), "label": label})
    union_free = not any(isinstance(x, Uni) for x in walk(spec))
    # a field falling back on its default makes strict acceptance non-monotone in validity (an
    # invalid field is *accepted* as its default): the equal-value clause is about valid data
    from ..tast import Obj as _Obj

    has_fbod = any(isinstance(x, _Obj) and any(f.fbod for f in x.fields) for x in walk(spec))
    apischema.cache.reset()  # Union[A,B]/Union[B,A] cache conflation (known finding of C09)
    ctx_s = case.ctx()
    ctx_c = case.ctx(coerce=True)
    ctx_r = case.ctx(coerce=True, custom_coercer=c_right)
    try:
        m_strict = apischema.deserialization_method(rz.tp, coerce=False)
        m_coerce = apischema.deserialization_method(rz.tp, coerce=True)
        m_right = apischema.deserialization_method(rz.tp, coerce=c_right)
        m_wrong = apischema.deserialization_method(rz.tp, coerce=c_wrong)
        m_raise = apischema.deserialization_method(rz.tp, coerce=c_raise)
        m_wrongc = apischema.deserialization_method(rz.tp, coerce=c_wrong_container)
        settings.deserialization.coerce = True
        try:
            m_settings = apischema.deserialization_method(rz.tp)
        finally:
            settings.deserialization.coerce = False
    except Exception:
        st.count("compile_error(C01 reports it)")
        return
    src = rz.source
    for dev, d in enumerate_data(spec, ctx_s, k=1, wide=True, extra_atoms=EXTRA):
        ks, os_ = dc.run_impl(m_strict, d)
        kc, oc = dc.run_impl(m_coerce, d)
        base = {"label": label, "type": short(spec), "datum": repr(d)}
        st.case(dc.shape_of(label), "coerce", type(d).__name__, ks, kc)
        if "exc" in (ks, kc):
            bad = oc if kc == "exc" else os_
            st.violation(dict(base, signature={"kind": "exception", "exc": type(bad).__name__, "mode": "coerce" if kc == "exc" else "strict"}, what=f"raised {bad!r}"[:300], source=src))
            continue
        # (a) monotonic
        if ks == "ok" and kc != "ok":
            st.violation(dict(base, signature={"kind": "coerce_rejects_strict_accepts", "shape": dc.shape_of(label)}, what=f"strict accepts {d!r} -> {os_!r} but coerce=True rejects: {dc.impl_errors(oc)[:2]}"[:400], source=src))
            continue
        if ks == "ok" and union_free and not has_fbod and not _same(os_, oc):
            st.violation(dict(base, signature={"kind": "coerce_changes_valid_value", "shape": dc.shape_of(label)}, what=f"strict gives {os_!r}, coerce=True gives {oc!r} for the already valid {d!r}"[:400], source=src))
            continue
        # (b) table
        ref = conform(spec, d, ctx_c)
        if ref is UNSPEC:
            st.count("unspecified")
        else:
            if ref.ok and kc == "err":
                st.violation(dict(base, signature={"kind": "table_entry_missing", "node": dc.node_at(spec, (dc.impl_errors(oc) or [((),)])[0][0], ctx_c), "dclass": type(d).__name__}, what=f"documented coercion should accept {d!r} (-> {ref.value!r}) but coerce=True rejects: {dc.impl_errors(oc)[:2]}"[:400], source=src))
            elif not ref.ok and kc == "ok":
                fl = ref.e.flat()
                loc = fl[0][0] if fl else ()
                st.violation(
                    dict(
                        base,
                        signature={"kind": "off_table_acceptance", "node": dc.node_at(spec, loc, ctx_c), "dclass": dc.dclass(dc.get_loc(d, loc))},
                        what=f"coerce=True accepts {d!r} -> {oc!r} through a route outside the documented table (model: {fl[:2]})"[:400],
                        source=src,
                    )
                )
            elif ref.ok and kc == "ok":
                r = match(ref.value, oc, rz.module)
                if r is not None:
                    st.violation(dict(base, signature={"kind": "coerced_value_differs", "shape": dc.shape_of(label)}, what=f"coerce=True: {d!r} -> {oc!r}, table gives {ref.value!r}: {r}"[:400], source=src))
        # settings route
        kk, oo = dc.run_impl(m_settings, d)
        if kk != kc or (kk == "ok" and not _same(oo, oc)):
            st.violation(dict(base, signature={"kind": "settings_route_differs"}, what=f"settings.deserialization.coerce=True gives {kk}:{oo!r}, coerce=True gives {kc}:{oc!r}"[:400], source=src))
        # (c) custom coercers
        for mode, m in (("wrong", m_wrong), ("wrong", m_wrongc), ("raise", m_raise)):
            kk, oo = dc.run_impl(m, d)
            st.case(dc.shape_of(label), mode, type(d).__name__, ks, kk)
            if kk == "exc":
                st.violation(dict(base, signature={"kind": "exception", "exc": type(oo).__name__, "mode": mode}, what=f"{mode} coercer: raised {oo!r}"[:300], source=src))
            elif kk == "err" and ks == "err" and sorted({repr(l) for l, _ in dc.impl_errors(oo)}) != sorted({repr(l) for l, _ in dc.impl_errors(os_)}):
                # a coercer that converts nothing: the same positions are in error (messages may be the coercer's own)
                st.violation(
                    dict(
                        base,
                        signature={"kind": "coercer_hides_errors", "mode": mode, "shape": dc.shape_of(label), "lost": len(dc.impl_errors(oo)) < len(dc.impl_errors(os_))},
                        what=f"{mode} coercer: errors at {sorted({l for l, _ in dc.impl_errors(oo)}, key=repr)} but strict mode reports {sorted({l for l, _ in dc.impl_errors(os_)}, key=repr)} for {d!r}"[:400],
                        source=src,
                    )
                )
            elif kk != ks or (kk == "ok" and union_free and not has_fbod and not _same(oo, os_)):
                st.violation(
                    dict(
                        base,
                        signature={"kind": "wrong_coercer_result_not_checked" if mode == "wrong" else "raising_coercer_outcome", "shape": dc.shape_of(label)},
                        what=f"{mode} coercer: outcome {kk}:{oo!r} differs from strict {ks}:{os_!r} for {d!r}"[:400],
                        source=src,
                    )
                )
        kk, oo = dc.run_impl(m_right, d)
        st.case(dc.shape_of(label), "right", type(d).__name__, ks, kk)
        refr = conform(spec, d, ctx_r)
        if kk == "exc":
            st.violation(dict(base, signature={"kind": "exception", "exc": type(oo).__name__, "mode": "right"}, what=f"right-typed coercer: raised {oo!r}"[:300], source=src))
        elif refr is not UNSPEC and union_free:
            if refr.ok != (kk == "ok"):
                st.violation(dict(base, signature={"kind": "custom_coercer_outcome", "shape": dc.shape_of(label), "accepts": kk == "ok"}, what=f"right-typed custom coercer: {d!r} -> {kk}:{oo!r}; model: {'accept ' + repr(refr.value) if refr.ok else refr.e.flat()[:2]}"[:400], source=src))
            elif refr.ok:
                r = match(refr.value, oo, rz.module)
                if r is not None:
                    st.violation(dict(base, signature={"kind": "custom_coercer_value", "shape": dc.shape_of(label)}, what=f"right-typed custom coercer: {d!r} -> {oo!r}, model {refr.value!r}: {r}"[:400], source=src))
    case.drop()
    dc.periodic_reset(i)


def _same(a, b) -> bool:
    try:
        if isinstance(a, (set, frozenset)) and type(a) is type(b):
            return sorted(map(repr, a)) == sorted(map(repr, b))
        return type(a) is type(b) and (a == b or repr(a) == repr(b))
    except Exception:
        return False


def select(tier, label):
    if dc.level_of(label) <= 1:
        return True
    if tier == "quick":
        return label.endswith("[int]]") or label.endswith("[float]]")
    return True


REC_DISC_SRC = '''
@dataclass
class RLeaf:
    v: int = 0
@dataclass
class RNode:
    children: List[Annotated[Union[RLeaf, "RNode"], discriminator("type")]] = field(default_factory=list)
    best: Optional[Annotated[Union[RLeaf, "RNode"], discriminator("type")]] = None
@discriminator("kind")
@dataclass
class RBase:
    tag: int = 0
@dataclass
class RTip(RBase):
    w: float = 0.5
@dataclass
class RBranch(RBase):
    kids: List[RBase] = field(default_factory=list)
    first: Optional["RBranch"] = None
'''


def run_discriminated(st):
    """discriminated unions (C13's world) and recursive ones, which the C01 grammar has not: every datum accepted
    in strict mode is accepted under coerce=True and under the right-typed / raising custom coercers with an equal value"""
    import sys

    from ..realize import PRELUDE, exec_source
    from .c13 import DISC_SRC

    m = exec_source(PRELUDE + DISC_SRC + REC_DISC_SRC)
    targets = {name: (utp, key, list(mapping)) for name, (utp, key, mapping, _d) in m.EXPECT.items()}
    data = {}
    for name, (utp, key, mapped) in targets.items():
        ds = []
        for k in mapped + ["nope", 1, None]:
            for body in ({}, {"x": 1}, {"x": "1"}, {"n": 2}, {"n": "2"}, {"v": 3}, {"x": 1, "zz": 0}):
                ds.append(dict(body, **{key: k}))
        ds += [{}, {"x": 1}, [], None, "a"]
        data[name] = (utp, ds)
    leaf = {"type": "RLeaf", "v": 1}
    node0 = {"type": "RNode", "children": []}
    node1 = {"type": "RNode", "children": [leaf, node0], "best": leaf}
    node2 = {"type": "RNode", "children": [node1], "best": node1}
    rn = [{}, {"children": []}, {"children": [leaf]}, {"children": [node0]}, {"children": [node1]}, {"children": [node2], "best": node2}, {"best": node0}, {"children": [{"type": "RLeaf", "v": "1"}]}, {"children": [{"type": "nope"}]}, {"children": [{"v": 1}]}]
    data["RNode"] = (m.RNode, rn)
    data["RLeafOrNode"] = (Annotated[Union[m.RLeaf, m.RNode], m.discriminator("type")], [leaf, node0, node1, node2, {"type": "RNode", "children": [{"type": "RLeaf", "v": "x"}]}])
    tip = {"kind": "RTip", "w": 1.5}
    br0 = {"kind": "RBranch", "kids": []}
    br1 = {"kind": "RBranch", "kids": [tip, br0], "first": {"kids": [tip]}}
    br2 = {"kind": "RBranch", "kids": [br1], "first": {"kids": [br1], "first": {"kids": []}}}
    data["RBase"] = (m.RBase, [tip, br0, br1, br2, {"kind": "RTip", "w": "1.5"}, {"kind": "nope"}, {}])
    data["RBranch"] = (m.RBranch, [{"kids": []}, {"kids": [tip]}, {"kids": [br1]}, {"kids": [br2], "first": {"kids": [br1]}}, {"kids": [{"w": 1}]}])
    try:
        for name, (utp, ds) in data.items():
            strict = apischema.deserialization_method(utp)
            for cname, co in (("coerce=True", True), ("right-typed coercer", c_right), ("raising coercer", c_raise)):
                cm = apischema.deserialization_method(utp, coerce=co)
                for d in ds:
                    st.case("disc", name, cname, repr(d)[:80])
                    k0, o0 = dc.run_impl(strict, d)
                    k1, o1 = dc.run_impl(cm, d)
                    base = {"label": "disc:" + name, "datum": repr(d)[:300], "coercer": cname}
                    if k1 == "exc":
                        st.violation(dict(base, signature={"kind": "exception", "exc": type(o1).__name__, "world": name}, what=f"{name} <- {d!r} under {cname} raised {o1!r}"[:300]))
                    elif k0 == "ok" and (k1 != "ok" or not _same(o0, o1)):
                        st.violation(dict(base, signature={"kind": "coercion_not_monotone", "world": name, "coercer": cname}, what=f"{name} <- {d!r}: strict gives {o0!r} but under {cname}: {o1 if k1 == 'ok' else dc.impl_errors(o1)[:3]!r}"[:400]))
    finally:
        sys.modules.pop(m.__name__, None)
        apischema.cache.reset()
    st.count("discriminated_worlds", len(data))


def run_literals(st):
    """Literal types mixing the classes of their values, in every order: under coercion the classes are tried in the order
    of the values (a datum coercible to several values gives the first), and a class the datum cannot be coerced to does
    not stop the search"""
    import itertools

    from ..tast import Lit

    pool = [1, True, "1", "1.0", 1.5, "a", 0, False]
    data = list(dict.fromkeys(map(repr, EXTRA + [1, 0, 2, 1.0, 0.0, 1.5, True, False, None, "1.0", "0"])))
    data = [eval(x) for x in data]
    k = 0
    for n in (2, 3):
        for vals in itertools.permutations(pool, n):
            if len({(type(v), v) for v in vals}) != n:
                continue
            k += 1
            spec = Lit(tuple(vals))
            case = dc.Case(f"literals:{vals!r}", spec)
            rz = case.realize()
            apischema.cache.reset()  # Literal[a, b] == Literal[b, a] for typing: cache conflation (same as the Union order finding of C09)
            try:
                m_strict = apischema.deserialization_method(rz.tp, coerce=False)
                m_coerce = apischema.deserialization_method(rz.tp, coerce=True)
            except Exception as e:
                st.violation({"label": case.label, "signature": {"kind": "literal_compile", "exc": type(e).__name__}, "what": repr(e)[:300]})
                continue
            ctx_c = case.ctx(coerce=True)
            for d in data:
                ks, os_ = dc.run_impl(m_strict, d)
                kc, oc = dc.run_impl(m_coerce, d)
                st.case("literals", tuple(type(v).__name__ for v in vals), type(d).__name__, ks, kc)
                base = {"label": case.label, "type": short(spec), "datum": repr(d)}
                if "exc" in (ks, kc):
                    st.violation(dict(base, signature={"kind": "exception", "exc": type(oc if kc == "exc" else os_).__name__, "mode": "literal"}, what=f"raised {(oc if kc == 'exc' else os_)!r}"[:300]))
                    continue
                if ks == "ok" and (kc != "ok" or not _same(os_, oc)):
                    st.violation(dict(base, signature={"kind": "coerce_changes_valid_value", "shape": "literals"}, what=f"Literal{list(vals)}: strict gives {os_!r}, coerce=True gives {oc if kc == 'ok' else dc.impl_errors(oc)[:2]!r} for {d!r}"[:400]))
                    continue
                ref = conform(spec, d, ctx_c)
                if ref is UNSPEC:
                    st.count("unspecified")
                    continue
                if ref.ok != (kc == "ok") or (ref.ok and not _same(ref.value, oc)):
                    st.violation(
                        dict(
                            base,
                            signature={"kind": "literal_coercion", "classes": [type(v).__name__ for v in vals], "dclass": type(d).__name__, "accepts": kc == "ok"},
                            what=f"Literal{list(vals)} <- {d!r} under coerce=True: {oc if kc == 'ok' else dc.impl_errors(oc)[:2]!r}, the table applied to the classes in the order of the values gives {('accept ' + repr(ref.value)) if ref.ok else 'reject'}"[:400],
                        )
                    )
                elif kc == "err" and type(d) in (str, int, float, bool, type(None)):
                    msgs = [m for _, m in dc.impl_errors(oc)]
                    if len(msgs) != 1:
                        # one violated rule (not one of the values), one entry; its text is not C14's business
                        st.violation(dict(base, signature={"kind": "literal_rejection_entries", "dclass": type(d).__name__}, what=f"Literal{list(vals)} <- {d!r} under coerce=True rejected with {len(msgs)} entries {msgs}, one rule is violated"[:400]))
            case.drop()
    st.count("literal_types", k)


def run_pass_through(st):
    """deserialization pass_through of instances, strict vs coercion: an instance of a passed-through class is returned as it
    is in strict mode, hence under every coercion mode too (monotonicity on non-JSON data the options make acceptable)"""
    import dataclasses
    from typing import List, Optional, Tuple

    @dataclasses.dataclass
    class Point:
        x: int = 0
        y: int = 0

    p = Point(1, 2)
    cases = [
        ("Point", Point, p, (Point,)),
        ("List[Point]", List[Point], [p, {"x": 3}], (Point,)),
        ("Optional[Point]", Optional[Point], p, (Point,)),
        ("Tuple[int, ...]", Tuple[int, ...], (1, 2), (tuple,)),
        ("pred", Point, p, lambda cls: cls is Point),
    ]
    for name, tp, datum, pt in cases:
        ks, os_ = dc.run_impl(lambda d: apischema.deserialize(tp, d, pass_through=pt), datum)
        for mode, kw in (("coerce", {"coerce": True}), ("right", {"coerce": c_right}), ("wrong", {"coerce": c_wrong}), ("wrong", {"coerce": c_wrong_container}), ("raise", {"coerce": c_raise})):
            kc, oc = dc.run_impl(lambda d: apischema.deserialize(tp, d, pass_through=pt, **kw), datum)
            st.case("pass_through", name, mode, ks, kc)
            if ks == "ok" and (kc != "ok" or not _same(os_, oc)):
                st.violation({"label": "pass_through:" + name, "datum": repr(datum), "signature": {"kind": "coerce_rejects_strict_accepts", "shape": "pass_through", "mode": mode}, "what": f"{name} with pass_through: strict gives {os_!r} but {mode} gives {oc if kc == 'ok' else (dc.impl_errors(oc)[:2] if kc == 'err' else repr(oc))!r}"[:400]})
        # the settings route
        settings.deserialization.coerce = True
        try:
            kc, oc = dc.run_impl(apischema.deserialization_method(tp, pass_through=pt), datum)
        finally:
            settings.deserialization.coerce = False
        if ks == "ok" and (kc != "ok" or not _same(os_, oc)):
            st.violation({"label": "pass_through:" + name, "datum": repr(datum), "signature": {"kind": "coerce_rejects_strict_accepts", "shape": "pass_through", "mode": "settings"}, "what": f"{name} with pass_through under settings.deserialization.coerce: {kc} {oc!r}, strict gives {os_!r}"[:400]})
    apischema.cache.reset()


def work(tier, widx, nworkers, st, extra):
    import os

    if widx == (2 % nworkers) and os.environ.get("VERIF_ONLY") in (None, "", "pass_through"):
        try:
            run_pass_through(st)
        except Exception:
            import traceback

            st.violation({"signature": {"kind": "harness_error"}, "harness_error": True, "what": "pass_through world", "traceback": traceback.format_exc()[-2000:]})

    if widx == 0 and os.environ.get("VERIF_ONLY") in (None, "", "disc"):
        run_discriminated(st)
    if widx == (1 % nworkers) and os.environ.get("VERIF_ONLY") in (None, "", "literals"):
        try:
            run_literals(st)
        except Exception:
            import traceback

            st.violation({"signature": {"kind": "harness_error"}, "harness_error": True, "what": "literal world", "traceback": traceback.format_exc()[-2000:]})
    for i, label, spec in dc.my_types("quick", widx, nworkers):
        if select(tier, label):
            run_type(i, label, spec, tier, st)


def main(tier: str, t0: float) -> int:
    st = infra.run_pool("vf.checks.c14", tier)
    return infra.finish(
        PROP,
        tier,
        st,
        t0,
        rule=RULE,
        coverage_extra={"exhaustive": True, "extra_atoms": EXTRA, "bounds": {"nesting": 2, "deviations": 1}},
        assumptions=[
            "the documented table: int()/float()/str() among str, int and float; 14 boolean words case-insensitively; int -> bool; '' -> None; nothing else (bool is not a number)",
            "list/dict positions are only affected by custom coercers",
        ],
    )


def replay(path: str) -> int:
    v = json.load(open(path))
    for lab, spec in gen_types("quick"):
        if lab == v["label"]:
            break
    else:
        return 2
    st = infra.Stats()
    run_type(1, lab, spec, "quick", st)
    hits = [x for x in st.violations if x.get("signature") == v.get("signature")]
    for x in hits[:3]:
        print(f"VIOLATION property=C14 replay={path}")
        print(" ", x["what"])
    return 1 if hits else 0
