"""C13 — union dispatch shortcuts equal try-each-alternative semantics.
E1 with a self-composition oracle: the alternatives are deserialized *individually* by the real
code; the union must accept iff one accepts and return a value equal to the first accepting one."""
from __future__ import annotations

import itertools
import json
import time
from typing import Any, Dict, Iterator, List, Optional, Tuple

from .. import infra
from .. import world  # noqa
from ..data import enumerate_data, skeletons, U_POOL, same
from ..grammar import Namer, atom, ATOM_NAMES, build_env, dfield
from ..realize import PRELUDE, exec_source, realize, realize_many
from ..refmodel.deser import Ctx
from ..tast import BOOL, FLOAT, INT, NONE, STR, AnyT, Coll, Con, EnumT, F, Lit, MapT, NewT, Obj, Opt, Prim, T, Tup, Uni, Unsup, short
from . import deser_common as dc

import apischema
from apischema import Unsupported, ValidationError, deserialize, serialize

PROP = "C13"
RULE = (
    "unions: every ordered pair of the alternative pool (atoms, containers, tuples, mappings, objects sharing keys, "
    "TypedDict, NamedTuple, nested union, Unsupported member) and every 3-/4-tuple of a 12-type colliding core; data: the "
    "skeletons of every alternative, their <=1-deviation mutants and the universal atom pool; with and without coercion. "
    "Oracle (self-composition on the real code): accept iff some alternative alone accepts; result == result of the first "
    "accepting alternative, its class being the class some accepting alternative returns; serialization of every accepted "
    "value equals serialization by the first alternative whose class matches. Discriminated unions (Annotated, inherited, "
    "TypedDict literal) and TaggedUnion are enumerated from source worlds with per-key expectations. distinct_nontrivial "
    "counts distinct (alternative kinds, coercion, datum JSON class, which alternative accepted) tuples."
)


def alt_pool(nm: Namer) -> Dict[str, T]:
    pool: Dict[str, T] = {a: atom(a, nm) for a in ATOM_NAMES}
    ctx = Ctx()
    pool.update(
        {
            "list_int": Coll("list", INT),
            "list_str": Coll("list", STR),
            "list_float": Coll("list", FLOAT),
            "set_int": Coll("set", INT),
            "vartuple_int": Coll("vartuple", INT),
            "tuple_int_str": Tup((INT, STR)),
            "tuple_int": Tup((INT,)),
            "dict_int": MapT("dict", STR, INT),
            "dict_str": MapT("dict", STR, STR),
            "opt_int": Opt(INT),
            "obj_a_int": Obj("dataclass", nm("O"), (F("a", INT),)),
            "obj_a_str": Obj("dataclass", nm("O"), (F("a", STR),)),
            "obj_a_float": Obj("dataclass", nm("O"), (F("a", FLOAT),)),
            "obj_a_dflt": Obj("dataclass", nm("O"), (dfield("a", INT, ctx),)),
            "obj_ab": Obj("dataclass", nm("O"), (F("a", INT), dfield("b", INT, ctx))),
            "obj_alias": Obj("dataclass", nm("O"), (F("z", INT, alias="a"),)),
            "typeddict_a": Obj("typeddict", nm("O"), (F("a", INT),)),
            "namedtuple_a": Obj("namedtuple", nm("O"), (F("a", INT),)),
            "con_list": Con(Coll("list", INT), (("min_items", 1), ("max_items", 2))),
            "newtype_str": NewT(nm("N"), STR),
            "nested_union": Uni((INT, Coll("list", STR))),
            "unsupported_int": Unsup(INT),
        }
    )
    return pool


POOL_NAMES = list(alt_pool(Namer()))
CORE = ["int", "float", "bool", "str", "lit_mixed", "enum_str", "obj_a_int", "obj_ab", "list_int", "tuple_int_str", "dict_int", "none", "con_int", "unsupported_int"]


def unions(tier: str) -> Iterator[Tuple[str, List[str]]]:
    for a, b in itertools.permutations(POOL_NAMES, 2):
        yield f"U[{a},{b}]", [a, b]
    n3 = CORE if tier == "thorough" else CORE[:9]
    for tri in itertools.permutations(n3, 3):
        yield "U[" + ",".join(tri) + "]", list(tri)
    if tier == "thorough":
        for quad in itertools.permutations(CORE[:8], 4):
            yield "U[" + ",".join(quad) + "]", list(quad)


def alone(method, d):
    """('ok', v) | ('err',) | ('unsupported',)"""
    if method is None:
        return ("unsupported",)
    try:
        return ("ok", method(d))
    except ValidationError:
        return ("err",)


def loose_eq(a, b) -> bool:
    try:
        return bool(a == b)
    except Exception:
        return False


def class_matches(spec: T, v: Any, mod, ctx: Ctx) -> bool:
    """does the runtime class of v match the alternative (the documented dispatch of union serialization)"""
    import collections.abc as cabc

    spec = dc.resolve(spec, ctx)
    if isinstance(spec, Unsup):
        return False
    if isinstance(spec, (NewT, Con)):
        return class_matches(spec.base, v, mod, ctx)
    if isinstance(spec, Prim):
        cls = {"int": int, "float": float, "str": str, "bool": bool, "none": type(None)}[spec.kind]
        return isinstance(v, cls)
    if isinstance(spec, AnyT):
        return True
    if isinstance(spec, Lit):
        return isinstance(v, tuple({type(x) for x in spec.values}))
    if isinstance(spec, EnumT):
        return isinstance(v, getattr(mod, spec.name))
    if isinstance(spec, Uni):
        return any(class_matches(a, v, mod, ctx) for a in spec.alts)
    if isinstance(spec, Coll):
        cls = {"list": list, "seq": cabc.Sequence, "set": set, "frozenset": frozenset, "vartuple": tuple, "absset": cabc.Set, "collection": cabc.Collection}[spec.kind]
        return isinstance(v, cls)
    if isinstance(spec, Tup):
        return isinstance(v, tuple) and len(v) == len(spec.elts)
    if isinstance(spec, MapT):
        return isinstance(v, dict if spec.kind == "dict" else cabc.Mapping)
    if isinstance(spec, Obj):
        return isinstance(v, cabc.Mapping) if spec.kind == "typeddict" else isinstance(v, getattr(mod, spec.name))
    return False


class _DictSub(dict):
    pass


class _ListSub(list):
    pass


class _StrSub(str):
    pass


class _IntSub(int):
    pass


class _FloatSub(float):
    pass


def run_union(i: int, label: str, names: List[str], st: infra.Stats):
    nm = Namer()
    pool = alt_pool(nm)
    alts = [pool[n] for n in names]
    specs = {f"a{j}": a for j, a in enumerate(alts)}
    uni = Uni(tuple(alts))
    specs["u"] = uni
    try:
        mod, tps, source = realize_many(specs)
    except Exception as e:
        st.violation({"signature": {"kind": "realize_error"}, "harness_error": True, "what": f"{label}: {e!r}", "traceback": repr(e)})
        return
    st.count("unions")
    # Union[A, B] and Union[B, A] are equal for typing, hence share cache entries (known finding
    # of C09): every union is checked from cold caches so that permutations do not interfere
    apischema.cache.reset()
    ctx = Ctx(env=build_env(uni))
    # data: union of alternatives' data
    data: List[Any] = []
    seen = set()
    for spec in alts + [uni]:
        for dev, d in enumerate_data(spec, ctx, k=1, wide=len(names) == 2):
            key = repr(d) + type(d).__name__
            if key not in seen:
                seen.add(key)
                data.append(d)
    # the same data as instances of subclasses of the JSON classes (OrderedDict, str / int / list subclasses):
    # every alternative alone accepts them through isinstance, the dispatch must too
    import collections

    for d in list(data):
        if type(d) is dict:
            data.extend([collections.OrderedDict(d), _DictSub(d)])
        elif type(d) is list:
            data.append(_ListSub(d))
        elif type(d) is str:
            data.append(_StrSub(d))
        elif type(d) is int:
            data.append(_IntSub(d))
        elif type(d) is float and d == d:
            data.append(_FloatSub(d))
    for coerce in (False, True):
        methods = []
        for j in range(len(alts)):
            try:
                methods.append(apischema.deserialization_method(tps[f"a{j}"], coerce=coerce))
            except Unsupported:
                methods.append(None)
        try:
            um = apischema.deserialization_method(tps["u"], coerce=coerce)
        except Unsupported:
            if all(m is None for m in methods):
                continue
            st.violation({"label": label, "signature": {"kind": "union_unsupported"}, "what": f"{label}: union refused although an alternative is supported", "source": source})
            return
        try:
            sm = apischema.serialization_method(tps["u"])
        except Exception as e:
            st.violation({"label": label, "type": short(uni), "signature": {"kind": "union_serialization_compile", "exc": type(e).__name__, "msg": str(e).split("[")[0][:40]}, "what": f"serialization_method({short(uni)}) raised {e!r}"[:300], "source": source})
            sm = None
        for d in data:
            res = [alone(m, d) for m in methods]
            first = next((j for j, r in enumerate(res) if r[0] == "ok"), None)
            kind, out = dc.run_impl(um, d)
            st.case(tuple(names), coerce, type(d).__name__, first)
            base = {"label": label, "type": short(uni), "coerce": coerce, "datum": repr(d)}
            if kind == "exc":
                st.violation(dict(base, signature={"kind": "exception", "exc": type(out).__name__}, what=f"union raised {type(out).__name__}: {out}"[:300], source=source))
                continue
            if first is None:
                if kind == "ok":
                    st.violation(
                        dict(
                            base,
                            signature={"kind": "union_accepts_none_does", "alts": sorted(set(names)), "coerce": coerce, "dclass": type(d).__name__},
                            what=f"{label} accepts {d!r} -> {out!r} but no alternative alone accepts it",
                            source=source,
                        )
                    )
                continue
            if kind == "err":
                st.violation(
                    dict(
                        base,
                        signature={"kind": "union_rejects_alt_accepts", "alt": names[first], "coerce": coerce, "dclass": type(d).__name__},
                        what=f"{label} rejects {d!r} but alternative {names[first]} alone accepts it ({res[first][1]!r}): {dc.impl_errors(out)[:3]}"[:400],
                        source=source,
                    )
                )
                continue
            exp = res[first][1]
            ok_classes = {type(r[1]) for r in res if r[0] == "ok"}
            if not loose_eq(out, exp) or type(out) not in ok_classes:
                st.violation(
                    dict(
                        base,
                        signature={"kind": "union_value_differs", "alt": names[first], "coerce": coerce, "dclass": type(d).__name__},
                        what=f"{label} <- {d!r}: union gives {out!r} but first accepting alternative {names[first]} gives {exp!r}"[:400],
                        source=source,
                    )
                )
                continue
            # serialization of the value: first alternative whose class matches
            if not coerce and sm is not None:
                try:
                    s_u = ("ok", sm(out))
                except Exception as e:
                    s_u = ("exc", type(e).__name__)
                exp_s = None
                for j, n in enumerate(names):
                    if not class_matches(alts[j], out, mod, ctx):
                        continue
                    try:
                        asm = apischema.serialization_method(tps[f"a{j}"])
                        exp_s = ("ok", asm(out))
                    except Exception:
                        exp_s = ("exc", None)  # the matching alternative alone refuses the value too
                    break
                if exp_s is not None and exp_s[0] == "exc":
                    st.count("value_refused_by_the_matching_alternative_alone")
                elif exp_s is not None and s_u[0] == "ok" and not loose_eq(s_u[1], exp_s[1]):
                    st.violation(
                        dict(
                            base,
                            signature={"kind": "union_serialization_differs", "alts": sorted(set(names))},
                            what=f"{label}: serialize(union, {out!r}) = {s_u[1]!r} but the first class-matching alternative gives {exp_s[1]!r}"[:400],
                            source=source,
                        )
                    )
                elif s_u[0] == "exc":
                    st.violation(
                        dict(base, signature={"kind": "union_serialization_exception", "exc": s_u[1]}, what=f"{label}: serialize(union, {out!r}) raised {s_u[1]}"[:300], source=source)
                    )
    import sys

    sys.modules.pop(mod.__name__, None)
    if i % 300 == 0:
        st.sample({"union": short(uni), "data": len(data)})
    dc.periodic_reset(i, 100)


# ------------------------------------------------------------------------------- discriminated
DISC_SRC = '''
from apischema.tagged_unions import Tagged, TaggedUnion, get_tagged
@dataclass
class Cat:
    x: int = 0
@dataclass
class Dog:
    x: int = 0
@dataclass
class Bird:
    type: Literal["bird", "avian"] = "bird"
    x: int = 0
@dataclass
class Fish:
    kind: str = field(default="fish", metadata=alias("type"))
    x: int = 0

@dataclass
class Bee:
    type: str  # the discriminator declared as a plain required field (no alias, no default)
    x: int = 0
@dataclass
class Eel:
    type_: Literal["eel", "anguilla"] = field(default="eel", metadata=alias("type"))
    x: int = 0

@dataclass
class WithRest:
    x: int = 0
    rest: Dict[str, int] = field(default_factory=dict, metadata=properties)
@dataclass
class WithPat:
    x: int = 0
    pat: Dict[str, Any] = field(default_factory=dict, metadata=properties(pattern="^t"))

Default = Annotated[Union[Cat, Dog], discriminator("type")]
RestU = Annotated[Union[Cat, WithRest], discriminator("type")]
PatU = Annotated[Union[Cat, WithPat], discriminator("type")]
Explicit = Annotated[Union[Cat, Dog], discriminator("type", {"c": Cat, "d": Dog})]
Partial = Annotated[Union[Cat, Dog], discriminator("type", {"c": Cat})]
NoOverride = Annotated[Union[Cat, Dog], discriminator("type", {"c": Cat}, override_implicit=False)]
WithLiteral = Annotated[Union[Cat, Bird], discriminator("type")]
WithStrField = Annotated[Union[Cat, Fish], discriminator("type")]
WithAliasedLiteral = Annotated[Union[Cat, Eel], discriminator("type")]
WithPlainStrField = Annotated[Union[Cat, Bee], discriminator("type")]
# the discriminator merged with other metadata in one annotation, and the union written Cat | Dog (PEP 604)
MergedMetadata = Annotated[Union[Cat, Dog], discriminator("type") | schema(description="a pet")]
MergedMetadataRev = Annotated[Union[Cat, Dog], schema(description="a pet") | discriminator("type")]
Pep604 = Annotated[Cat | Dog, discriminator("type")]

@discriminator("kind")
class Pet:
    pass
@dataclass
class Kitten(Pet):
    n: int = 0
@dataclass
class Puppy(Pet):
    n: int = 0
    kind: str = "Puppy"
Inherited = Union[Kitten, Puppy]

# two nested discriminated classes, alternatives at different depths of the hierarchy
@discriminator("type")
@dataclass
class NShape:
    pass
@discriminator("sort")
@dataclass
class NPolygon(NShape):
    pass
@dataclass
class NTriangle(NPolygon):
    n: int = 0
@dataclass
class NCircle(NShape):
    x: int = 0
NestedDepths = Union[NTriangle, NCircle]
NestedDepthsRev = Union[NCircle, NTriangle]

class TD1(TypedDict):
    type: Literal["one"]
    v: int
class TD2(TypedDict):
    type: Literal["two"]
    v: int
TDU = Annotated[Union[TD1, TD2], discriminator("type")]

class Tagged1(TaggedUnion):
    a: Tagged[int]
    b: Tagged[str]
    c: Tagged[List[int]]

# a discriminated base with (so far) a single subclass
@discriminator("kind")
@dataclass
class Solo:
    pass
@dataclass
class OnlyKid(Solo):
    n: int = 0

# only in C13 (a genuine defect recorded as a known finding: the other users of this world read EXPECT)
EXPECT_C13_ONLY = {
    "SingleChild": (Solo, "kind", {"OnlyKid": OnlyKid}, set()),
}

# expectations: name -> (union type, mapping key -> alternative class, declares_field set)
EXPECT = {
    "Default": (Default, "type", {"Cat": Cat, "Dog": Dog}, set()),
    "RestU": (RestU, "type", {"Cat": Cat, "WithRest": WithRest}, set()),
    "PatU": (PatU, "type", {"Cat": Cat, "WithPat": WithPat}, set()),
    "Explicit": (Explicit, "type", {"c": Cat, "d": Dog}, set()),
    "Partial": (Partial, "type", {"c": Cat, "Dog": Dog}, set()),
    "NoOverride": (NoOverride, "type", {"c": Cat, "Cat": Cat, "Dog": Dog}, set()),
    "WithLiteral": (WithLiteral, "type", {"Cat": Cat, "bird": Bird, "avian": Bird}, {Bird}),
    "WithStrField": (WithStrField, "type", {"Cat": Cat, "Fish": Fish}, {Fish}),
    "MergedMetadata": (MergedMetadata, "type", {"Cat": Cat, "Dog": Dog}, set()),
    "MergedMetadataRev": (MergedMetadataRev, "type", {"Cat": Cat, "Dog": Dog}, set()),
    "Pep604": (Pep604, "type", {"Cat": Cat, "Dog": Dog}, set()),
    "WithPlainStrField": (WithPlainStrField, "type", {"Cat": Cat, "Bee": Bee}, {Bee}),
    "WithAliasedLiteral": (WithAliasedLiteral, "type", {"Cat": Cat, "eel": Eel, "anguilla": Eel}, {Eel}),
    "Inherited": (Inherited, "kind", {"Kitten": Kitten, "Puppy": Puppy}, {Puppy}),
    "PetBase": (Pet, "kind", {"Kitten": Kitten, "Puppy": Puppy}, {Puppy}),
    "NestedDepths": (NestedDepths, "type", {"NTriangle": NTriangle, "NCircle": NCircle}, set()),
    "NestedDepthsRev": (NestedDepthsRev, "type", {"NTriangle": NTriangle, "NCircle": NCircle}, set()),
    "TDU": (TDU, "type", {"one": TD1, "two": TD2}, {TD1, TD2}),
}
'''


def run_discriminated(st: infra.Stats, tier: str):
    mod = exec_source(PRELUDE + DISC_SRC)
    values = [0, 1, "a", None, [], {}, True, 1.5]
    for name, (utp, key, mapping, declares) in list(mod.EXPECT.items()) + list(mod.EXPECT_C13_ONLY.items()):
        for coerce in (False, True):
            try:
                um = apischema.deserialization_method(utp, coerce=coerce)
            except Exception as e:
                st.violation({"signature": {"kind": "disc_compile", "union": name}, "what": f"{name}: {e!r}"[:300], "label": name})
                continue
            keys = list(mapping) + ["nope", "cat", 1, None, [], True]
            bodies = [{}, {"x": 1}, {"x": "bad"}, {"x": 1, "zz": 0}, {"n": 2}, {"v": 3}, {"v": "bad"}, {"n": 1, "x": 1}]
            for k in keys + ["<absent>"]:
                for body in bodies:
                    d = dict(body)
                    if k != "<absent>":
                        d[key] = k
                    st.case(name, coerce, repr(k), tuple(sorted(body)))
                    kind, out = dc.run_impl(um, d)
                    base = {"label": name, "datum": repr(d), "coerce": coerce}
                    if kind == "exc":
                        st.violation(dict(base, signature={"kind": "exception", "exc": type(out).__name__, "union": name}, what=f"{name} <- {d!r} raised {type(out).__name__}: {out}"[:300]))
                        continue
                    hashable = isinstance(k, (str, int, type(None), bool))
                    alt = mapping.get(k) if hashable and isinstance(k, str) else None
                    if alt is None:
                        if kind == "ok":
                            st.violation(dict(base, signature={"kind": "disc_accepts_unknown_key", "union": name}, what=f"{name} accepts {d!r} -> {out!r} (no alternative is mapped to {k!r})"[:300]))
                        continue
                    d_alt = dict(d)
                    if alt not in declares:
                        d_alt.pop(key, None)
                    am = apischema.deserialization_method(alt, coerce=coerce)
                    r = alone(am, d_alt)
                    if r[0] == "ok":
                        if kind != "ok" or type(out) is not type(r[1]) or out != r[1]:
                            st.violation(
                                dict(base, signature={"kind": "disc_differs", "union": name, "key": repr(k)}, what=f"{name} <- {d!r}: {('rejects' if kind != 'ok' else repr(out))} but {alt.__name__} on the data gives {r[1]!r}"[:400])
                            )
                            continue
                        # serialization adds the discriminator and round-trips
                        try:
                            s = serialize(utp, out)
                            back = deserialize(utp, s)
                            if not (isinstance(s, dict) and key in s and back == out and type(back) is type(out)):
                                st.violation(dict(base, signature={"kind": "disc_roundtrip", "union": name}, what=f"{name}: serialize({out!r}) = {s!r} does not round-trip (back={back!r})"[:400]))
                        except Exception as e:
                            st.violation(dict(base, signature={"kind": "disc_roundtrip_exc", "union": name, "exc": type(e).__name__}, what=f"{name}: serialize/deserialize of {out!r} raised {e!r}"[:300]))
                    else:
                        if kind == "ok":
                            st.violation(dict(base, signature={"kind": "disc_accepts_alt_rejects", "union": name}, what=f"{name} accepts {d!r} -> {out!r} but {alt.__name__} rejects the data"[:300]))
    # TaggedUnion: exactly one tag
    T1 = mod.Tagged1
    tm = apischema.deserialization_method(T1)
    tagvals = {"a": [1, "x"], "b": ["s", 2], "c": [[1], ["x"], 3]}
    valid = {"a": 1, "b": "s", "c": [1]}
    for n in range(0, 4):
        for tags in itertools.combinations(["a", "b", "c", "zz"], n):
            for choice in itertools.product(*[(tagvals.get(t, [0])) for t in tags]):
                d = dict(zip(tags, choice))
                kind, out = dc.run_impl(tm, d)
                st.case("Tagged1", tags, tuple(map(repr, choice)))
                exp_ok = len(tags) == 1 and tags[0] in valid and type(choice[0]) is type(valid[tags[0]]) and (tags[0] != "c" or all(isinstance(x, int) for x in choice[0]))
                if kind == "exc":
                    st.violation({"label": "Tagged1", "datum": repr(d), "signature": {"kind": "exception", "exc": type(out).__name__, "union": "Tagged1"}, "what": f"Tagged1 <- {d!r} raised {out!r}"[:300]})
                elif (kind == "ok") != exp_ok:
                    st.violation({"label": "Tagged1", "datum": repr(d), "signature": {"kind": "tagged_union", "ntags": len(tags), "accepted": kind == "ok"}, "what": f"Tagged1 <- {d!r}: {'accepted' if kind == 'ok' else 'rejected'}, expected {'accept' if exp_ok else 'reject'}"[:300]})
                elif kind == "ok":
                    s = serialize(T1, out)
                    if s != d:
                        st.violation({"label": "Tagged1", "datum": repr(d), "signature": {"kind": "tagged_union_roundtrip"}, "what": f"Tagged1: serialize gives {s!r} for {d!r}"})
    st.count("discriminated_worlds", len(mod.EXPECT) + 1)


def work(tier, widx, nworkers, st, extra):
    only = __import__("os").environ.get("VERIF_ONLY")
    if widx == 0 and not only:
        run_discriminated(st, tier)
    for i, (label, names) in enumerate(unions(tier)):
        if i % nworkers != widx:
            continue
        if only and only not in label:
            continue
        run_union(i, label, names, st)


def main(tier: str, t0: float) -> int:
    st = infra.run_pool("vf.checks.c13", tier)
    return infra.finish(
        PROP,
        tier,
        st,
        t0,
        rule=RULE,
        coverage_extra={"exhaustive": True, "alternative_pool": POOL_NAMES, "core": CORE, "bounds": {"arity": 3 if tier == "quick" else 4, "deviations": 1}},
        assumptions=[
            "the value is compared with == as the property states; its class must be the class returned by some accepting alternative",
            "under coercion the alternatives are also deserialized with coercion (try-each semantics of the coerced alternatives)",
        ],
    )


def replay(path: str) -> int:
    v = json.load(open(path))
    label = v["label"]
    st = infra.Stats()
    if label.startswith("U["):
        names = label[2:-1].split(",")
        run_union(1, label, names, st)
    else:
        run_discriminated(st, "quick")
    hits = [x for x in st.violations if x.get("signature") == v.get("signature")]
    for x in hits[:3]:
        print(f"VIOLATION property=C13 replay={path}")
        print(" ", x["what"])
    return 1 if hits else 0
