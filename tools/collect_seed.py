#!/usr/bin/env python3
"""collect a sub-agent's scratch worktree into /verif/seeded/<id>/: patch.diff, demo.py, notes"""
import json, os, shutil, subprocess, sys
wt, sid, prop = sys.argv[1], sys.argv[2], sys.argv[3]
VERIF = os.path.dirname(os.path.dirname(os.path.abspath(__file__)))
d = os.path.join(VERIF, "seeded", sid)
os.makedirs(d, exist_ok=True)
diff = subprocess.run(["git", "-C", wt, "diff", "--", "apischema"], capture_output=True, text=True).stdout
assert diff.strip(), "empty diff"
open(os.path.join(d, "patch.diff"), "w").write(diff)
for name in os.listdir(wt):
    if name.startswith("demo") and name.endswith(".py"):
        shutil.copy(os.path.join(wt, name), os.path.join(d, "demo.py"))
if os.path.exists(os.path.join(wt, "MUTATION.md")):
    shutil.copy(os.path.join(wt, "MUTATION.md"), os.path.join(d, "NOTES.md"))
meta = {"id": sid, "property": prop, "origin": "independent sub-agent given only the property text and a scratch worktree", "files": sorted({l.split(" b/")[-1] for l in diff.splitlines() if l.startswith("diff --git")}), "needs_to_manifest": "", "ran": []}
if not os.path.exists(os.path.join(d, "meta.json")):
    json.dump(meta, open(os.path.join(d, "meta.json"), "w"), indent=1)
print(d, len(diff.splitlines()), "diff lines")
