"""Compare model values (vf.refmodel.deser V*) with real Python values, structurally and with
runtime classes; build real values from model values."""
from __future__ import annotations

import dataclasses
import math
from typing import Any, Optional

from .refmodel.deser import MISSING, UNDEF, VAlts, VEnum, VObj


def _num_eq(a, b):
    if isinstance(a, float) and isinstance(b, float) and math.isnan(a) and math.isnan(b):
        return True
    return a == b


def match(v: Any, x: Any, mod, lenient: bool = False) -> Optional[str]:
    """None when x is the typed image v, else a short reason.  `lenient` compares with == only
    at numeric leaves (used for union alternatives, see DESIGN C13)."""
    if isinstance(v, VAlts):
        r0 = match(v.first, x, mod, lenient)
        if r0 is None:
            return None
        # must be == first (lenient) and be exactly one of the other alternatives' values
        if match(v.first, x, mod, True) is not None:
            return "union: " + r0
        for o in v.others:
            if match(o, x, mod, lenient) is None:
                return None
        return "union: " + r0
    if v is UNDEF:
        import apischema

        return None if x is apischema.Undefined else f"expected Undefined, got {x!r}"
    if isinstance(v, VEnum):
        cls = getattr(mod, v.enum)
        return None if x is cls[v.member] else f"expected {v.enum}.{v.member}, got {x!r}"
    if isinstance(v, VObj):
        cls = getattr(mod, v.cls)
        if type(x) is not cls:
            return f"expected instance of {v.cls}, got {type(x).__name__}"
        for k, fv in v.fields.items():
            if fv is MISSING:
                continue
            try:
                fx = getattr(x, k)
            except AttributeError:
                return f"{v.cls}.{k} missing"
            r = match(fv, fx, mod, lenient)
            if r is not None:
                return f".{k}: {r}"
        return None
    if v is None or isinstance(v, (bool, str)):
        if type(x) is not type(v) or x != v:
            return f"expected {v!r}, got {x!r}"
        return None
    if isinstance(v, (int, float)):
        if lenient:
            if isinstance(x, bool) or not isinstance(x, (int, float)) or not _num_eq(v, x):
                return f"expected {v!r}, got {x!r}"
            return None
        if type(x) is not type(v) or not _num_eq(v, x):
            return f"expected {v!r} ({type(v).__name__}), got {x!r} ({type(x).__name__})"
        return None
    if isinstance(v, (list, tuple)):
        if type(x) is not type(v):
            return f"expected {type(v).__name__}, got {type(x).__name__}"
        if len(x) != len(v):
            return f"length {len(x)} != {len(v)}"
        for i, (a, b) in enumerate(zip(v, x)):
            r = match(a, b, mod, lenient)
            if r is not None:
                return f"[{i}]: {r}"
        return None
    if isinstance(v, (set, frozenset)):
        if type(x) is not type(v):
            return f"expected {type(v).__name__}, got {type(x).__name__}"
        if len(x) != len(v):
            return f"set size {len(x)} != {len(v)}"
        rest = list(x)
        for a in v:
            for i, b in enumerate(rest):
                if match(a, b, mod, lenient) is None:
                    del rest[i]
                    break
            else:
                return f"set element {a!r} not found"
        return None
    if isinstance(v, dict):
        if type(x) is not dict:
            return f"expected dict, got {type(x).__name__}"
        if len(x) != len(v):
            return f"dict size {len(x)} != {len(v)} ({sorted(map(repr, x))} vs {sorted(map(repr, v))})"
        xs = list(x.items())
        for k, a in v.items():
            for i, (k2, b) in enumerate(xs):
                if match(k, k2, mod, lenient) is None:
                    r = match(a, b, mod, lenient)
                    if r is not None:
                        return f"[{k!r}]: {r}"
                    del xs[i]
                    break
            else:
                return f"key {k!r} not found"
        return None
    # opaque python value (Any positions holding non-JSON objects): identity or equality
    if v is x or v == x:
        return None
    return f"expected {v!r}, got {x!r}"


def build(v: Any, mod) -> Any:
    """real value for a model value"""
    if isinstance(v, VAlts):
        return build(v.first, mod)
    if v is UNDEF:
        import apischema

        return apischema.Undefined
    if isinstance(v, VEnum):
        return getattr(mod, v.enum)[v.member]
    if isinstance(v, VObj):
        cls = getattr(mod, v.cls)
        kwargs = {k: build(fv, mod) for k, fv in (v.ctor if v.ctor is not None else v.fields).items() if fv is not MISSING}
        if v.kind == "dataclass":
            init_names = {f.name for f in dataclasses.fields(cls) if f.init}
            obj = cls(**{k: x for k, x in kwargs.items() if k in init_names})
            for k, x in kwargs.items():
                if k not in init_names:
                    object.__setattr__(obj, k, x)
            return obj
        return cls(**kwargs)
    if isinstance(v, list):
        return [build(a, mod) for a in v]
    if isinstance(v, tuple):
        return tuple(build(a, mod) for a in v)
    if isinstance(v, set):
        return {build(a, mod) for a in v}
    if isinstance(v, frozenset):
        return frozenset(build(a, mod) for a in v)
    if isinstance(v, dict):
        return {build(k, mod): build(a, mod) for k, a in v.items()}
    return v
