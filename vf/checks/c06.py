"""C06 — deserialize and deserialization_schema agree on what is valid.
E1: types x data x options; oracle = independent validator (jsonschema, draft 2020-12) on the
generated schema vs the real deserialize, on the common semantic domain stated in the property."""
from __future__ import annotations

import json
from typing import Any, Optional

from .. import infra
from ..data import enumerate_data
from ..grammar import gen_types, well_formed
from ..refmodel.deser import Ctx
from ..tast import AnyT, Coll, Con, short, walk
from . import deser_common as dc

import apischema
from apischema.json_schema import deserialization_schema

import jsonschema
from jsonschema import Draft202012Validator

PROP = "C06"
RULE = (
    "types: grammar of C01 (level<=1 with k<=2 deviations and the full option cross; level 2 pairs with k<=1 and 4 option "
    "vectors); options: additional_properties x aliaser x all_refs (+ per-call schema at level<=1); every datum of the "
    "common semantic domain (no integer-valued float, no duplicate elements for types holding sets, no 1/True mixes under "
    "uniqueItems) is validated by jsonschema.Draft202012Validator against deserialization_schema(T, ...) and deserialized "
    "by the real code; the verdicts must be equal. distinct_nontrivial counts distinct (ctor-pair shape, options, "
    "deviation count, datum JSON class at root, verdict) tuples."
)


def in_domain(d: Any, has_set: bool, has_unique: bool) -> bool:
    if isinstance(d, float):
        return not d.is_integer() and d == d
    if isinstance(d, list):
        if has_set or has_unique:
            keys = [json.dumps(x, sort_keys=True) for x in d]
            if len(set(keys)) != len(keys):
                return False
            # 1 / 1.0 / True are equal for Python and distinct for JSON Schema
            try:
                if len({_pykey(x) for x in d}) != len(d):
                    return False
            except TypeError:
                pass
        return all(in_domain(x, has_set, has_unique) for x in d)
    if isinstance(d, dict):
        return all(in_domain(x, has_set, has_unique) for x in d.values())
    return True


def _pykey(x):
    if isinstance(x, list):
        return tuple(map(_pykey, x))
    if isinstance(x, dict):
        return tuple(sorted((k, _pykey(v)) for k, v in x.items()))
    return x


def deciding_keyword(validator, d) -> str:
    try:
        err = jsonschema.exceptions.best_match(validator.iter_errors(d))
        return str(err.validator) if err is not None else "-"
    except Exception:
        return "?"


CALL_SCHEMA = apischema.schema(min_props=1, min_items=1, min_len=1)


def run_type(i, label, spec, tier, st):
    env_ctx = Ctx(env=dc.build_env(spec))
    if well_formed(spec, env_ctx):
        return
    if "fbod_field" in label:
        return  # fall_back_on_default is lenient parsing of *invalid* fields, not validity (documented exclusion)
    case = dc.Case(label, spec)
    lvl = dc.level_of(label)
    overlapping_patterns = "props[" in label or label.startswith("props")
    from ..tast import Obj as _Obj

    flattened = any(isinstance(x, _Obj) and any(f.flatten for f in x.fields) for x in walk(spec))
    try:
        rz = case.realize()
    except Exception as e:
        st.violation({"label": label, "signature": {"kind": "realize_error"}, "what": repr(e)[:300], "harness_error": True, "traceback": repr(e)})
        return
    st.count("types")
    if i % 101 == 0:
        st.sample({"type": short(spec), "label": label})
    has_set = any(isinstance(x, Coll) and x.kind in ("set", "frozenset", "absset") for x in walk(spec))
    has_unique = any(isinstance(x, Con) and dict(x.cons).get("unique") for x in walk(spec))
    if lvl <= 1:
        vectors = [(ap, al, ar) for ap in (False, True) for al in ("id", "camel", "custom") for ar in (False, True)]
    else:
        vectors = [(False, "id", False), (True, "camel", True), (False, "custom", True), (True, "id", False)]
    first = True
    for ap, al, ar in vectors:
        ctx = case.ctx(ap, False, al)
        # second pass: the same type with constraints given at the call (schema=...), to deserialize and to the schema
        # function alike: another method built from the same compiled factory, another schema; same agreement
        passes = [None] + ([CALL_SCHEMA] if (first or (ap and al == "id")) else [])
        stop = False
        for call_schema in passes:
            if stop:
                break
            try:
                method = case.method(ap, False, al, **({} if call_schema is None else {"schema": call_schema}))
            except Exception:
                st.count("compile_error(C01 reports it)")
                stop = True
                break
            try:
                schema = deserialization_schema(rz.tp, additional_properties=ap, aliaser=dc.IMPL_ALIASERS[al], all_refs=ar, **({} if call_schema is None else {"schema": call_schema}))
                Draft202012Validator.check_schema(schema)
                validator = Draft202012Validator(schema)
            except Exception as e:
                st.violation(
                    {
                        "label": label,
                        "type": short(spec),
                        "options": [ap, al, ar] + (["schema=min_props=1,min_items=1,min_len=1"] if call_schema is not None else []),
                        "signature": {"kind": "schema_generation", "exc": type(e).__name__, "msg": str(e)[:14] if isinstance(e, TypeError) else "", "nested_flatten": "flat_nested" in label},
                        "what": f"deserialization_schema / check_schema failed: {e!r}"[:300],
                        "source": rz.source,
                    }
                )
                stop = True
                break
            k = 2 if (lvl <= 1 and first and call_schema is None) else 1
            for dev, d in enumerate_data(spec, ctx, k=k, wide=(first or lvl <= 1) and call_schema is None):
                if not in_domain(d, has_set, has_unique):
                    st.count("outside_common_domain")
                    continue
                if overlapping_patterns and '"pq' in json.dumps(d):
                    st.count("key_matching_two_patterns(first-match vs all-match semantics)")
                    continue
                kind, out = dc.run_impl(method, d)
                if kind == "exc":
                    st.count("exception(C01/C03 report it)")
                    continue
                try:
                    valid = validator.is_valid(d)
                except Exception as e:
                    st.violation({"label": label, "signature": {"kind": "validator_exception", "exc": type(e).__name__}, "what": f"jsonschema raised {e!r}"[:300], "datum": repr(d), "harness_error": False, "source": rz.source})
                    continue
                st.case(dc.shape_of(label), (ap, al, ar), dev, type(d).__name__, kind, call_schema is not None)
                if valid != (kind == "ok"):
                    if valid:
                        errs = dc.impl_errors(out)
                        loc = errs[0][0] if errs else ()
                        sig = {"kind": "disagree", "direction": "schema_accepts_deser_rejects", "node": dc.node_at(spec, loc, ctx), "dclass": dc.dclass(dc.get_loc(d, loc))}
                        what = f"schema accepts {d!r} but deserialize rejects it: {errs[:2]}"
                    else:
                        kw = deciding_keyword(validator, d)
                        sig = {"kind": "disagree", "direction": "schema_rejects_deser_accepts", "keyword": kw, "flattened": flattened, "shape": dc.shape_of(label).split("[")[0] if not flattened else "-"}
                        what = f"deserialize accepts {d!r} -> {out!r} but the schema rejects it (keyword {kw})"
                    st.violation(
                        {
                            "label": label,
                            "type": short(spec),
                            "options": [ap, al, ar] + (["schema=min_props=1,min_items=1,min_len=1"] if call_schema is not None else []),
                            "datum": repr(d),
                            "signature": sig,
                            "what": what[:400],
                            "schema": json.dumps(schema)[:1500],
                            "source": rz.source,
                        }
                    )
        if stop:
            break
        first = False
    case.drop()
    dc.periodic_reset(i)


def run_discriminated(st):
    """discriminated unions / classes (C13's world, outside the grammar): deserialize acceptance vs validity
    against the deserialization schema, for every (discriminator value, body)"""
    import sys

    from ..realize import PRELUDE, exec_source
    from .c13 import DISC_SRC

    m = exec_source(PRELUDE + DISC_SRC)
    try:
        for name, (utp, key, mapping, _declares) in m.EXPECT.items():
            for ap in (False, True):
                try:
                    schema = deserialization_schema(utp, additional_properties=ap)
                    Draft202012Validator.check_schema(schema)
                    validator = Draft202012Validator(schema)
                    method = apischema.deserialization_method(utp, additional_properties=ap)
                except Exception as e:
                    st.violation({"label": "disc:" + name, "signature": {"kind": "schema_generation", "exc": type(e).__name__, "world": name}, "what": f"{name}: {e!r}"[:300]})
                    continue
                for k in list(mapping) + ["nope", "<absent>"]:
                    for body in ({}, {"x": 1}, {"x": "bad"}, {"n": 2}, {"v": 3}, {"x": 1, "zz": 0}):
                        d = dict(body)
                        if k != "<absent>":
                            d[key] = k
                        kind, out = dc.run_impl(method, d)
                        if kind == "exc":
                            continue
                        valid = validator.is_valid(d)
                        st.case("disc", name, ap, repr(k), tuple(sorted(body)), kind)
                        if valid != (kind == "ok"):
                            st.violation(
                                {
                                    "label": "disc:" + name,
                                    "options": [ap],
                                    "datum": repr(d),
                                    "signature": {"kind": "disagree", "world": "discriminated", "union": name, "direction": "schema_accepts_deser_rejects" if valid else "schema_rejects_deser_accepts"},
                                    "what": f"{name} <- {d!r}: deserialize {'accepts' if kind == 'ok' else 'rejects'} but the schema {'accepts' if valid else 'rejects'} it"[:300],
                                    "schema": json.dumps(schema)[:1500],
                                }
                            )
    finally:
        sys.modules.pop(m.__name__, None)
        apischema.cache.reset()


def work(tier, widx, nworkers, st, extra):
    import os

    if widx == 0 and os.environ.get("VERIF_ONLY") in (None, "", "disc"):
        run_discriminated(st)
    for i, label, spec in dc.my_types(tier, widx, nworkers):
        run_type(i, label, spec, tier, st)


def main(tier: str, t0: float) -> int:
    st = infra.run_pool("vf.checks.c06", tier)
    return infra.finish(
        PROP,
        tier,
        st,
        t0,
        rule=RULE,
        coverage_extra={"exhaustive": True, "bounds": {"nesting": 2, "deviations": 2}, "oracle": "jsonschema " + jsonschema.__version__ + " Draft202012Validator, no format checker"},
        assumptions=[
            "common semantic domain as stated in the property: start-anchored patterns (the grammar only generates those), no integer-valued floats, format as annotation, no duplicate array elements for types holding sets",
            "jsonschema 4.x implements draft 2020-12 semantics (bool is not a number, 1 != true under uniqueItems)",
        ],
    )


def replay(path: str) -> int:
    v = json.load(open(path))
    st = infra.Stats()
    for lab, spec in gen_types("thorough"):
        if lab == v["label"]:
            run_type(1, lab, spec, "thorough", st)
            break
    hits = [x for x in st.violations if x.get("signature") == v.get("signature")]
    for x in hits[:3]:
        print(f"VIOLATION property=C06 replay={path}")
        print(" ", x["what"])
    return 1 if hits else 0
