"""C07 — serialized data validates against serialization_schema.
E1: types x model-built values x global exclude_defaults / exclude_none settings x aliaser x
additional_properties; oracle = jsonschema (draft 2020-12) on the generated schema."""
from __future__ import annotations

import json
from typing import Any

from .. import infra
from ..grammar import gen_types, well_formed
from ..refmodel.deser import UNSPEC, Ctx, conform
from ..tast import Obj, short, walk
from . import deser_common as dc
from .c04 import build_value, values_of
from .c06 import deciding_keyword

import apischema
from apischema import settings
from apischema.json_schema import serialization_schema

import jsonschema
from jsonschema import Draft7Validator, Draft201909Validator, Draft202012Validator

PROP = "C07"
RULE = (
    "types and values of C04 (typed images of all skeleton data + Undefined / None / default-equal variants; values with "
    "unset tracked fields are excluded as the property says) x settings.serialization.exclude_defaults x exclude_none "
    "(global, set and restored by the driver) x aliaser x additional_properties: serialize(T, v) must validate against "
    "serialization_schema(T) generated under the same settings, and (exclude_* off) against the schema asked in versions "
    "2019-09 and draft-07 under these drafts' own validators; structurally every `required` key must be emitted for "
    "every enumerated value and every emitted key must be declared or allowed; plus source worlds of converted types "
    "(registered / dynamic / field conversions, generic conversions, a collection-like class with a registered conversion "
    "under a dynamic conversion on its elements) in the contexts T / List / Dict / Optional. distinct_nontrivial counts distinct "
    "(ctor-pair shape, settings, value index, emitted key set) tuples."
)


def run_type(i, label, spec, tier, st):
    env = dc.build_env(spec)
    ctx0 = Ctx(env=env)
    if well_formed(spec, ctx0):
        return
    if "con_list" in label or "union_str[seq" in label:
        # uniqueItems bears on data (two equal values come from two distinct data); str under Union[Sequence, str]: see C04
        return
    lvl = dc.level_of(label)
    case = dc.Case(label, spec)
    try:
        rz = case.realize()
    except Exception as e:
        st.violation({"label": label, "signature": {"kind": "realize_error"}, "what": repr(e)[:300], "harness_error": True, "traceback": repr(e)})
        return
    vals = values_of(spec, ctx0)
    if not vals:
        return
    st.count("types")
    if i % 101 == 0:
        st.sample({"type": short(spec), "label": label})
    flattened = any(isinstance(x, Obj) and any(f.flatten for f in x.fields) for x in walk(spec))
    reals = []
    for v in vals:
        # unset-tracking: only fully-set values (the property excludes fields dropped by unset-tracking)
        try:
            from ..refmodel.deser import VObj

            if isinstance(v, VObj) and v.present is not None:
                ob = env.get(v.cls)
                if ob is not None and ob.fields_set:
                    v = VObj(v.cls, v.kind, v.fields, {k for k in v.fields}, v.noinit)
            reals.append(build_value(spec, v, rz.module, ctx0))
        except Exception:
            pass
    if lvl <= 1:
        vectors = [(ed, en, al, ap) for ed in (False, True) for en in (False, True) for al in ("id", "camel", "custom") for ap in (False, True)]
    else:
        vectors = [(False, False, "id", False), (True, False, "camel", True), (False, True, "custom", False), (True, True, "id", True)]
    try:
        for ed, en, al, ap in vectors:
            settings.serialization.exclude_defaults = ed
            settings.serialization.exclude_none = en
            kw = dict(aliaser=dc.IMPL_ALIASERS[al], additional_properties=ap)
            try:
                schema = serialization_schema(rz.tp, **kw)
                Draft202012Validator.check_schema(schema)
                validator = Draft202012Validator(schema)
            except Exception as e:
                st.violation(
                    {
                        "label": label,
                        "type": short(spec),
                        "options": [ed, en, al, ap],
                        "signature": {"kind": "schema_generation", "exc": type(e).__name__, "msg": str(e)[:14] if isinstance(e, TypeError) else "", "nested_flatten": "flat_nested" in label},
                        "what": f"serialization_schema / check_schema failed: {e!r}"[:300],
                        "source": rz.source,
                    }
                )
                break
            older = []
            if not ed and not en:
                # the same outputs against the schema asked in the older JSON Schema versions, under their own rules
                from apischema.json_schema import JsonSchemaVersion

                for vname, ver, vcls in (("2019-09", JsonSchemaVersion.DRAFT_2019_09, Draft201909Validator), ("draft-07", JsonSchemaVersion.DRAFT_7, Draft7Validator)):
                    try:
                        sv = serialization_schema(rz.tp, version=ver, **kw)
                        vcls.check_schema(sv)
                        older.append((vname, vcls(sv), sv))
                    except Exception as e:
                        st.violation({"label": label, "type": short(spec), "options": [ed, en, al, ap], "signature": {"kind": "schema_generation", "exc": type(e).__name__, "version": vname}, "what": f"serialization_schema(version={vname}) / check_schema failed: {e!r}"[:300], "source": rz.source})
            for vi, real in enumerate(reals):
                try:
                    out = apischema.serialize(rz.tp, real, exclude_unset=False, **kw)
                except Exception:
                    st.count("serialize_exception(C04 reports it)")
                    continue
                if "rec_cons" in label:
                    # maxProperties on the back-reference bears on the *data*: a value whose image has more
                    # properties than allowed (the defaulted `next: None` is written out unless excluded)
                    # is not a well-typed value of the constrained position (same as C05, DESIGN 10.2 item 6)
                    mr = conform(spec, out, case.ctx(ap, False, al))
                    if mr is not UNSPEC and not mr.ok and any(m and "Properties)" in m for _, m in mr.e.flat()):
                        st.count("value_violates_object_constraint")
                        continue
                keys = tuple(sorted(map(repr, out))) if isinstance(out, dict) else type(out).__name__
                st.case(dc.shape_of(label), (ed, en, al, ap), vi, keys)
                if validator.is_valid(out):
                    for vname, vv, sv in older:
                        st.case(dc.shape_of(label), (vname, al, ap), vi, keys)
                        if not vv.is_valid(out):
                            kwd = deciding_keyword(vv, out)
                            st.violation({"label": label, "type": short(spec), "options": [ed, en, al, ap], "value": repr(real)[:300], "signature": {"kind": "invalid_output_older_version", "version": vname, "keyword": kwd, "shape": dc.shape_of(label).split("[")[0]}, "what": f"serialize gives {out!r} which validates against the 2020-12 serialization schema but not against the {vname} one (keyword {kwd})"[:400], "schema": json.dumps(sv)[:1500], "source": rz.source})
                if not validator.is_valid(out):
                    kwd = deciding_keyword(validator, out)
                    st.violation(
                        {
                            "label": label,
                            "type": short(spec),
                            "options": [ed, en, al, ap],
                            "value": repr(real)[:300],
                            "signature": {"kind": "invalid_output", "keyword": kwd, "flattened": flattened, "shape": dc.shape_of(label).split("[")[0] if not flattened else "-", "exclude": [ed, en]},
                            "what": f"serialize gives {out!r} which does not validate against serialization_schema (keyword {kwd})"[:400],
                            "schema": json.dumps(schema)[:1500],
                            "source": rz.source,
                        }
                    )
    finally:
        settings.serialization.exclude_defaults = False
        settings.serialization.exclude_none = False
    case.drop()
    dc.periodic_reset(i)


def run_conversion_worlds(st):
    """types reached through conversions (registered, dynamic, field metadata, generic, collection-like classes):
    the serialized value must validate against the serialization schema built with the same arguments"""
    import sys
    from typing import Dict, List, Optional

    from ..realize import PRELUDE, exec_source
    from .c12 import SPECIAL

    m = exec_source(PRELUDE + SPECIAL)
    try:
        apischema.serializer(m.path_to_list)
        apischema.serializer(m.unwrap)
        apischema.serializer(m.unbox)
        apischema.serializer(m.ka_to_int)
        pts = [m.Pt(0, 0), m.Pt(1, 2)]
        path = m.PtPath(*pts)
        cases = [
            ("PtPath", m.PtPath, path, {}),
            ("PtPath+dynamic", m.PtPath, path, {"conversion": m.pt_to_str}),
            ("List[PtPath]+dynamic", List[m.PtPath], [path], {"conversion": m.pt_to_str}),
            ("Dict[PtPath]+dynamic", Dict[str, m.PtPath], {"k": path}, {"conversion": m.pt_to_str}),
            ("Optional[PtPath]+dynamic", Optional[m.PtPath], path, {"conversion": m.pt_to_str}),
            ("Drawing(field conversion)", m.Drawing, m.Drawing("d", path, m.PtPath(m.Pt(3, 4))), {}),
            ("List[Pt]+dynamic", List[m.Pt], pts, {"conversion": m.pt_to_str}),
            ("Wrapper[int]", m.Wrapper[int], m.Wrapper([1, 2]), {}),
            ("Wrapper[Pt]+dynamic", m.Wrapper[m.Pt], m.Wrapper(pts), {"conversion": m.pt_to_str}),
            ("Box[Pt]", m.Box[m.Pt], m.Box(m.Pt(1, 2)), {}),
            ("List[Box[int]]", List[m.Box[int]], [m.Box(1)], {}),
            ("KA", m.KA, m.KA(3), {}),
            ("Dict[KA]", Dict[str, m.KA], {"k": m.KA(3)}, {}),
        ]
        for name, tp, v, kw in cases:
            for al in ("id", "camel"):
                kw2 = dict(kw, aliaser=dc.IMPL_ALIASERS[al])
                st.case("conversion_world", name, al)
                try:
                    schema = serialization_schema(tp, **kw2)
                    out = apischema.serialize(tp, v, **kw2)
                except Exception as e:
                    st.violation({"label": "world:" + name, "signature": {"kind": "world_exception", "world": name, "exc": type(e).__name__}, "what": f"{name}: {e!r}"[:300]})
                    continue
                validator = Draft202012Validator(schema)
                if not validator.is_valid(out):
                    st.violation({"label": "world:" + name, "signature": {"kind": "invalid_output", "world": name, "keyword": deciding_keyword(validator, out)}, "what": f"{name}: serialize gives {out!r} which does not validate against {json.dumps(schema)[:300]}"[:600]})
        # a serialized method registered from outside the class *after* a first serialization: the schema (not
        # cached) lists it at once, the serialized data must carry it too
        for how in ("owner", "free_function"):
            m2 = exec_source(PRELUDE + "@dataclass\nclass Late:\n    a: int = 0\n@dataclass\nclass HoldsLate:\n    l: Late = field(default_factory=Late)\n    ls: List[Late] = field(default_factory=list)\n")
            try:
                apischema.serialize(m2.Late, m2.Late())
                apischema.serialize(m2.HoldsLate, m2.HoldsLate(m2.Late(), [m2.Late()]))
                if how == "owner":
                    exec("def _total(self) -> int:\n    return self.a + 1\nserialized('total', owner=Late)(_total)\n", m2.__dict__)
                else:
                    exec("@serialized\ndef total(l: Late) -> int:\n    return l.a + 1\n", m2.__dict__)
                for name, tp, v in (("Late", m2.Late, m2.Late()), ("HoldsLate", m2.HoldsLate, m2.HoldsLate(m2.Late(), [m2.Late()]))):
                    st.case("late_serialized", how, name)
                    schema = serialization_schema(tp)
                    out = apischema.serialize(tp, v)
                    validator = Draft202012Validator(schema)
                    if "total" not in json.dumps(schema):
                        st.count("late_serialized_method_not_in_schema")
                    if not validator.is_valid(out):
                        st.violation({"label": "world:late_serialized", "signature": {"kind": "invalid_output", "world": "late_serialized:" + how, "keyword": deciding_keyword(validator, out)}, "what": f"after registering a serialized method on {name} ({how}) following a first use: serialize gives {out!r} which does not validate against {json.dumps(schema)[:300]}"[:600]})
            except Exception as e:
                st.violation({"label": "world:late_serialized", "signature": {"kind": "world_exception", "world": "late_serialized:" + how, "exc": type(e).__name__}, "what": f"late serialized ({how}): {e!r}"[:300]})
            finally:
                sys.modules.pop(m2.__name__, None)
                apischema.cache.reset()
    finally:
        sys.modules.pop(m.__name__, None)
        apischema.cache.reset()


def work(tier, widx, nworkers, st, extra):
    import os

    if widx == 0 and os.environ.get("VERIF_ONLY") in (None, "", "world"):
        run_conversion_worlds(st)
    try:
        for i, label, spec in dc.my_types(tier, widx, nworkers):
            run_type(i, label, spec, tier, st)
    finally:
        dc.world.restore_settings()


def main(tier: str, t0: float) -> int:
    st = infra.run_pool("vf.checks.c07", tier)
    return infra.finish(
        PROP,
        tier,
        st,
        t0,
        rule=RULE,
        coverage_extra={"exhaustive": True, "bounds": {"nesting": 2}, "oracle": "jsonschema " + jsonschema.__version__ + " Draft202012Validator"},
        assumptions=["exclude_unset=False at call time: no field is dropped by unset-tracking, as the property requires"],
    )


def replay(path: str) -> int:
    v = json.load(open(path))
    st = infra.Stats()
    try:
        for lab, spec in gen_types("thorough"):
            if lab == v["label"]:
                run_type(1, lab, spec, "thorough", st)
                break
    finally:
        dc.world.restore_settings()
    hits = [x for x in st.violations if x.get("signature") == v.get("signature")]
    for x in hits[:3]:
        print(f"VIOLATION property=C07 replay={path}")
        print(" ", x["what"])
    return 1 if hits else 0
