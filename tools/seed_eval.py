#!/usr/bin/env python3
"""Evaluate a seeded change: scratch worktree of /repo + patch, pinned tests, demo, then the named
checks (quick tier) against it through VERIF_REPO; evidence / replays go to a scratch directory.

usage: tools/seed_eval.py seeded/<id> C01 [C02 ...] [--no-tests] [--tier quick|thorough]"""
import json, os, shutil, subprocess, sys, tempfile, time

VERIF = os.path.dirname(os.path.dirname(os.path.abspath(__file__)))


def sh(cmd, **kw):
    return subprocess.run(cmd, shell=True, capture_output=True, text=True, **kw)


def main():
    args = [a for a in sys.argv[1:] if not a.startswith("--")]
    seed_dir = os.path.abspath(args[0])
    checks = args[1:]
    tier = "thorough" if "--thorough" in sys.argv else "quick"
    sid = os.path.basename(seed_dir.rstrip("/"))
    wt = f"/tmp/seedwt-{sid}-{os.getpid()}"
    scratch = tempfile.mkdtemp(prefix="seedev-")
    res = {"seed": sid, "tier": tier, "repo_head": sh("git -C /repo rev-parse --short HEAD").stdout.strip(), "checks": {}}
    try:
        r = sh(f"git -C /repo worktree add -q --detach {wt} HEAD")
        assert r.returncode == 0, r.stderr
        demo0 = next((f for f in os.listdir(seed_dir) if f.startswith("demo")), None)
        if demo0:
            import re

            src = open(os.path.join(seed_dir, demo0)).read()
            open(os.path.join(wt, "demo_seed.py"), "w").write(re.sub(r"/tmp/(?:wt|w2|w3|w4|w5|w6|w7|w8|w9)-C\d+\w*", wt, src))
            r = sh(f"cd {wt} && /venv/bin/python demo_seed.py")
            res["demo_exit_without_change"] = r.returncode
        r = sh(f"git -C {wt} apply {seed_dir}/patch.diff")
        assert r.returncode == 0, "patch does not apply: " + r.stderr
        if "--no-tests" not in sys.argv:
            r = sh(f"cd {wt} && /venv/bin/python -m pytest -q -p no:cacheprovider 2>&1 | tail -1")
            res["pytest"] = r.stdout.strip()
        demo = next((f for f in os.listdir(seed_dir) if f.startswith("demo")), None)
        if demo:
            shutil.copy(os.path.join(seed_dir, demo), os.path.join(wt, "demo_seed.py"))
            import re

            src = open(os.path.join(wt, "demo_seed.py")).read()
            open(os.path.join(wt, "demo_seed.py"), "w").write(re.sub(r"/tmp/(?:wt|w2|w3|w4|w5|w6|w7|w8|w9)-C\d+\w*", wt, src))
            r = sh(f"cd {wt} && /venv/bin/python demo_seed.py", env=dict(os.environ, SEED_WT=wt))
            res["demo_exit_with_change"] = r.returncode
        for c in checks:
            t0 = time.time()
            env = dict(os.environ, VERIF_REPO=wt, VERIF_EVIDENCE_DIR=os.path.join(scratch, "evidence"), VERIF_REPLAY_DIR=os.path.join(scratch, "replays"))
            r = sh(f"cd {VERIF} && /venv/bin/python -m vf.run {c} --tier {tier}", env=env)
            lines = [l for l in r.stdout.splitlines() if l.startswith("VIOLATION") or l.startswith("  signature") or l.startswith("HARNESS")]
            res["checks"][c] = {"exit": r.returncode, "violation_lines": len([l for l in lines if l.startswith("VIOLATION")]), "first": lines[:4], "wall_s": round(time.time() - t0, 1)}
            print(c, "exit", r.returncode, "violations", res["checks"][c]["violation_lines"], flush=True)
            for l in lines[:2]:
                print("   ", l[:260])
    finally:
        sh(f"git -C /repo worktree remove --force {wt}")
        shutil.rmtree(scratch, ignore_errors=True)
    with open(os.path.join(seed_dir, "result.json"), "w") as f:
        json.dump(res, f, indent=1)
    print(json.dumps({k: v for k, v in res.items() if k != "checks"}))


if __name__ == "__main__":
    main()
