CHECKS = [
    {
        "id": "C01", "engine": "E1", "design_ref": "DESIGN.md §5 C01",
        "technique": "bounded exhaustive enumeration of (type term, options, datum) against an independent reference model",
        "text": "Every type of the bounded grammar (all ctor/shape pairs, nesting 2) x every datum at <=2 deviations from a valid skeleton x option vectors is executed on the real deserialize and compared (verdict and typed image with runtime classes) with an independent reference model of the documented data model; exhaustive within the stated bounds, nothing sampled.",
        "note": "Trusted: the reference model (vf/refmodel/deser.py, written from the docs, no code shared with apischema); cases the docs do not decide are excluded and counted. Bounds: nesting depth 2, <=2 deviations, atom pools listed in evidence.",
    },
    {
        "id": "C02", "engine": "E1", "design_ref": "DESIGN.md §5 C02",
        "technique": "bounded exhaustive enumeration of rejected (type, options, datum with <=3 independent deviations) against a reference error model + compositional self-check + cross-interpreter digest",
        "text": "Every rejected datum of the C01 space (k<=2, k<=3 at level<=1 in thorough) is executed; the multiset of (loc, message) is compared with the reference model, list order, from_errors round trip and the compositional law errors(parent)|child == errors(child) are checked on the real code, under the default and a fully customised settings.errors catalogue; a digest of all error lists is compared between two interpreters with different hash seeds.",
        "note": "Trusted: reference error model (vf/refmodel/deser.py). Message order inside one location is compared as a multiset (the by-type shortcut legitimately orders them differently). An item whose key and value are both invalid is excluded.",
    },
    {
        "id": "C03", "engine": "E1", "design_ref": "DESIGN.md §5 C03",
        "technique": "bounded exhaustive enumeration: every wild atom substituted at every position of every skeleton x 16 option vectors; crash / purity oracle",
        "text": "For every type of the grammar, every skeleton datum and every single substitution of 51 wild / JSON atoms at every position is deserialized under coerce x additional_properties x fall_back_on_default x no_copy; any exception other than ValidationError, a non-computable or non-JSON-serialisable .errors, a modified input (structure and container identities) or modified user classes is a violation; 50/400/900-deep data for recursive shapes.",
        "note": "Bounds: one wild substitution per datum, nesting 2; recursion limit 1000. Known finding: RecursionError on 400/900-deep data of recursive types (listed in known_findings.json).",
    },
    {
        "id": "C20", "engine": "E3", "design_ref": "DESIGN.md §4, §5 C20",
        "technique": "stateless model checking of the implementation: exhaustive enumeration of thread schedules with bounded preemptions (CHESS-style iterative context bounding) under a cooperative scheduler driven by sys.monitoring line/bytecode events",
        "text": "For each harness (2-3 real threads performing the first deserialize / serialize / schema generation on fresh recursive, mutually recursive, generic, shared-member, converted and plain types) every schedule with <=1 preemption (quick) / <=2 preemptions on the shared-state core plus bytecode-level points on the recursion analysis (thorough) is executed on the real code; each thread's result and follow-up observations must equal the sequential baseline; failing schedules are replayed twice before being reported; replayed prefixes are validated entry by entry.",
        "note": "Assumes CPython 3.12 GIL semantics (switches only between bytecodes, C-level dict/lru_cache operations atomic). Scheduling points only inside apischema's shared-state modules. Bounds: 2 threads (3 in one harness), <=2 preemptions. Randomised preemption (sampling) is not used.",
    },
]
_PENDING = "check not built yet in this round (planned, see DESIGN.md §5); not claimed until it runs green"
NOT_APPLICABLE = [{"property_id": f"C{i:02d}", "reason": _PENDING} for i in range(4, 20)]
