"""C10 — validators run exactly when their inputs are valid; all errors are merged.
E1 on generated source modules: classes x validators (dependency sets, kinds, styles,
inheritance) x data (each field absent / valid / invalid) x pass-fail vectors; the set of
validators actually invoked is observed through their own side effects."""
from __future__ import annotations

import itertools
import json
import signal
import sys
from typing import Any, Dict, Iterator, List, Optional, Tuple

from .. import infra
from .. import world  # noqa
from ..realize import PRELUDE, exec_source

import apischema
from apischema import ValidationError, deserialize
from apischema.utils import to_camel_case

PROP = "C10"
RULE = (
    "classes with 3 fields (a_x required, b aliased 'bee' with default, c with default) and 1..2 validators (plus 3 on "
    "a reduced alphabet: 12 (deps, kind) descriptors in quick, 16 in thorough): each validator has an enumerated dependency set (every subset of the fields — the empty one included: such a validator never runs —, read "
    "directly, through a helper method, through two helper methods calling each other, through a property, plus an init-only parameter (InitVar field) taken by the first validator, through a functools.cached_property, or through a diamond of helper methods shared by the validators), a kind in {plain, validator(field), validator(f, discard=g), validator(discard=g) for "
    "every field g}, an error style in {raise, yield message, yield (get_alias(self).f, message), yield (0, message)}, declared in the class or "
    "in a base class, or in a generic class deserialized as V[int] (also with the helper method it reads overridden in the subclass deserialized); x every datum assigning each field one of {absent, valid, invalid} x every pass/fail vector x aliaser "
    "in {identity, camelCase}. Observed: the exact sequence of validators invoked (each logs its name first), the sorted "
    "error list, whether the object was constructed. Oracle: 25-line reference rule from the property statement; "
    "termination under a watchdog with recursion limit 300. distinct_nontrivial counts distinct (validator descriptors, "
    "datum, outcome vector) tuples."
)

FIELDS = ["a_x", "b", "c"]
ALIAS = {"a_x": "a_x", "b": "bee", "c": "c", "p": "p"}
REQUIRED = {"a_x"}
READ = {"a_x": "self.a_x", "b": "self.helper_b()", "c": "self.prop_c"}


def subsets():
    for r in (1, 2, 3):
        for s in itertools.combinations(FIELDS, r):
            yield s


# "fd:f>g" = validator(f, discard=g): located at f, the explicit discard *replaces* the default one (f is not discarded)
KINDS = [("plain", None)] + [("field", f) for f in FIELDS] + [("discard", f) for f in FIELDS] + [("field_discard", f + ">" + g) for f in FIELDS for g in FIELDS if f != g]
STYLES = ["raise", "yield", "yield_path", "yield_index0"]


def validator_src(name: str, deps, kind, style, by_name: bool = False, cycle: bool = False, param: bool = False) -> List[str]:
    k, target = kind
    L = []
    t = repr(target) if by_name else target  # a field inherited from a base class is named by a string
    if k == "plain":
        L.append("    @validator")
    elif k == "field":
        L.append(f"    @validator({t})")
    elif k == "field_discard":
        f_, g_ = target.split(">")
        L.append(f"    @validator({f_!r}, discard={g_!r})" if by_name else f"    @validator({f_}, discard={g_})")
    else:
        L.append(f"    @validator(discard={t})")
    L.append(f"    def {name}(self, p):" if param else f"    def {name}(self):")
    L.append(f"        LOG.append({name!r})")
    # a_x is read through a diamond of helpers by the first validator (via1 -> h_ax <- via2) and through one
    # branch only by the others: the dependency analysis of a helper must not depend on who asked first
    read_ax = {"v0": "(self.via1(), self.via2())[0]", "v1": "self.via2()", "v2": "self.via1()"}.get(name, "self.a_x")
    if cycle:
        # a_x read through two helpers calling each other (cyc_a reads a_x, cyc_b reads b): whoever enters the cycle,
        # by either door, depends on both fields
        read_ax = "self.cyc_a(1)" if name == "v0" else "self.cyc_b(1)"
    # c is read through a property by the first validator and through a functools.cached_property by the others
    read_c = READ["c"] if name == "v0" else "self.cached_c"
    if deps:
        L.append("        _ = (" + ", ".join((read_ax if d == "a_x" else read_c if d == "c" else READ[d]) for d in deps) + ",)")
    else:
        L.append("        _ = vars  # reads no field at all: no dependency, hence never 'provided'")
    if style == "raise":
        L.append(f"        if SWITCH[{name!r}]:")
        L.append(f"            raise ValidationError({name + ' failed'!r})")
    elif style == "yield":
        L.append(f"        if SWITCH[{name!r}]:")
        L.append(f"            yield {name + ' failed'!r}")
    elif style == "yield_index0":  # a path can be an integer (index in a sequence), 0 included
        L.append(f"        if SWITCH[{name!r}]:")
        L.append(f"            yield 0, {name + ' failed'!r}")
    else:
        L.append(f"        if SWITCH[{name!r}]:")
        L.append(f"            yield get_alias(self).{deps[0]}, {name + ' failed'!r}")
    return L


def class_src(cname: str, vals: List[tuple], inherit: bool) -> str:
    """vals: list of (name, deps, kind, style); with inherit the first validator and fields a_x, b
    live in a base class"""
    head = [
        "    a_x: int = field()",
        "    b: int = field(default=0, metadata=alias('bee'))",
    ]
    with_param = inherit in ("param", "override_param")
    if with_param:
        # an init-only parameter read by the first validator (declared dependency, besides the attributes it reads)
        head.append("    p: InitVar[int] = field(default=0, metadata=init_var(int))")
    helpers = [
        "    def h_ax(self):",
        "        return self.a_x",
        "    def via1(self):",
        "        return self.h_ax()",
        "    def via2(self):",
        "        return self.h_ax()",
        "    def helper_b(self):",
        "        return self.b",
        "    @property",
        "    def prop_c(self):",
        "        return self.c",
        "    @functools.cached_property",
        "    def cached_c(self):",
        "        return self.c",
    ]
    L = []
    if inherit and inherit not in ("generic", "cycle", "param"):
        base_ok = all(d in ("a_x", "b") for d in vals[0][1]) and (vals[0][2][1] in (None, "a_x", "b", "a_x>b", "b>a_x"))
        if not base_ok:
            return ""
        L.append("@dataclass")
        L.append(f"class B{cname}:")
        L += head
        L += helpers[:8]
        L += validator_src(*vals[0], param=with_param)
        L.append("@dataclass")
        L.append(f"class {cname}(B{cname}):")
        L.append("    c: int = field(default=0)")
        L += helpers[8:]
        if inherit in ("override", "override_param"):
            # the helper read by the inherited validator is overridden: in this class its dependency is c, not b
            L += ["    def helper_b(self):", "        return self.c"]
        for v in vals[1:]:
            L += validator_src(*v, by_name=True)
    else:
        L.append("@dataclass")
        # "generic": the class is generic and deserialized through its parametrized alias V[int]
        L.append(f"class {cname}(Generic[TVc]):" if inherit == "generic" else f"class {cname}:")
        L += head
        L.append("    c: TVc = field(default=0)" if inherit == "generic" else "    c: int = field(default=0)")
        L += helpers
        if inherit == "cycle":
            L += ["    def cyc_a(self, n=0):", "        return self.a_x + (self.cyc_b(n - 1) if n else 0)", "    def cyc_b(self, n=0):", "        return self.b + (self.cyc_a(n - 1) if n else 0)"]
        for k_, v in enumerate(vals):
            L += validator_src(*v, cycle=inherit == "cycle", param=with_param and k_ == 0)
    return "\n".join(L)


def data_vectors(with_param: bool = False) -> Iterator[Dict[str, str]]:
    fields = FIELDS + ["p"] if with_param else FIELDS
    for combo in itertools.product(("absent", "valid", "invalid"), repeat=len(fields)):
        yield dict(zip(fields, combo))


def make_datum(vec: Dict[str, str], aliaser) -> Dict[str, Any]:
    d = {}
    for f, state in vec.items():
        if state == "valid":
            d[aliaser(ALIAS[f])] = 1
        elif state == "invalid":
            d[aliaser(ALIAS[f])] = "x"
    return d


def reference(vals: List[tuple], vec: Dict[str, str], fails: Dict[str, bool], aliaser, inherit: bool = False):
    """(log, sorted errors, constructed?).  Order: declaration order within a class; between a class
    and its bases the property fixes nothing but 'a fixed order' — the library documents MRO order
    (derived class first), which is what is compared."""
    v0 = vals[0][0]
    if inherit and inherit not in ("generic", "cycle", "param"):
        vals = list(vals[1:]) + [vals[0]]
    errors: List[Tuple[tuple, str]] = []
    invalid = set()
    for f, state in vec.items():
        if state == "invalid":
            errors.append(((aliaser(ALIAS[f]),), "expected type integer, found string"))
            invalid.add(f)
        elif state == "absent" and f in REQUIRED:
            errors.append(((aliaser(ALIAS[f]),), "missing property"))
            invalid.add(f)
    provided = {f for f, s in vec.items() if s == "valid"}
    log = []
    discarded = set()
    for name, deps, (kind, target), style in vals:
        declared = deps
        deps = set(deps)
        if inherit in ("override", "override_param"):
            # helper_b is overridden in the class deserialized: whoever reads b through it reads c
            deps = {"c" if d == "b" else d for d in deps}
        if inherit in ("param", "override_param") and name == v0:
            deps = deps | {"p"}
        if inherit == "cycle" and "a_x" in deps:
            deps = deps | {"b"}
        if not (deps & provided):
            continue
        if deps & invalid:
            continue
        if deps & discarded:
            continue
        log.append(name)
        if fails[name]:
            msg = name + " failed"
            loc: tuple = ()
            if style == "yield_path":
                loc = (aliaser(ALIAS[declared[0]]),)
            elif style == "yield_index0":
                loc = (0,)
            if kind == "field":
                loc = (aliaser(ALIAS[target]),) + loc
            elif kind == "field_discard":
                loc = (aliaser(ALIAS[target.split(">")[0]]),) + loc
            errors.append((loc, msg))
            if kind in ("field", "discard"):
                discarded.add(target)
            elif kind == "field_discard":
                discarded.add(target.split(">")[1])
    return log, sorted(errors, key=repr), not errors


class Timeout(Exception):
    pass


def _alarm(signum, frame):
    raise Timeout()


def describe(vals) -> str:
    return "; ".join(f"{n}[deps={','.join(d)} kind={k[0]}{':' + k[1] if k[1] else ''} style={s}]" for n, d, k, s in vals)


def run_class(mod, cname, vals, inherit, st: infra.Stats):
    cls = getattr(mod, cname)
    if inherit == "generic":
        cls = cls[int]
    names = [v[0] for v in vals]
    for alname, aliaser in (("id", lambda s: s), ("camel", to_camel_case)):
        try:
            method = apischema.deserialization_method(cls, aliaser=aliaser)
        except Exception as e:
            st.violation({"signature": {"kind": "compile_exception", "exc": type(e).__name__}, "what": f"{describe(vals)}: {e!r}"[:300], "validators": repr(vals), "inherit": inherit})
            return
        for vec in data_vectors(inherit in ("param", "override_param")):
            d = make_datum(vec, aliaser)
            for outcome in itertools.product((False, True), repeat=len(vals)):
                fails = dict(zip(names, outcome))
                mod.SWITCH.clear()
                mod.SWITCH.update(fails)
                del mod.LOG[:]
                exp_log, exp_errors, exp_ok = reference(vals, vec, fails, aliaser, inherit)
                signal.alarm(20)
                try:
                    try:
                        out = method(dict(d))
                        got = ("ok", [])
                    except ValidationError as e:
                        got = ("err", sorted(((tuple(x["loc"]), x["err"]) for x in e.errors), key=repr))
                    except Timeout:
                        got = ("timeout", [])
                    except RecursionError:
                        got = ("RecursionError", [])
                    except Exception as e:  # noqa
                        got = (type(e).__name__, [str(e)[:100]])
                finally:
                    signal.alarm(0)
                log = list(mod.LOG)
                st.case(describe(vals), inherit, alname, tuple(vec.values()), outcome)
                base = {"validators": repr(vals), "inherit": inherit, "aliaser": alname, "datum": repr(d), "fails": repr(fails), "what_class": describe(vals)}
                aliased = any(ALIAS[f] != f or aliaser(ALIAS[f]) != f for f in vec if vec[f] == "invalid")
                if got[0] not in ("ok", "err"):
                    st.violation(dict(base, signature={"kind": "non_termination_or_crash", "exc": got[0], "discard": any(v[2][0] in ("discard", "field", "field_discard") for v in vals)}, what=f"{describe(vals)} on {d} fails={fails}: {got[0]} {got[1]}"[:400]))
                    continue
                if log != exp_log:
                    st.violation(
                        dict(
                            base,
                            signature={
                                "kind": "run_set",
                                "extra": bool(set(log) - set(exp_log)) or len(log) > len(exp_log),
                                "missing": bool(set(exp_log) - set(log)),
                                "invalid_field_is_aliased": aliased,
                                "discard": any(v[2][0] in ("discard", "field", "field_discard") for v in vals),
                            },
                            what=f"{describe(vals)} on {d} fails={fails}: validators invoked {log}, expected {exp_log}"[:400],
                        )
                    )
                    continue
                if (got[0] == "ok") != exp_ok or (got[0] == "err" and got[1] != exp_errors):
                    st.violation(
                        dict(
                            base,
                            signature={"kind": "errors", "constructed": got[0] == "ok", "expected_constructed": exp_ok, "styles": sorted({v[3] for v in vals}), "kinds": sorted({v[2][0] for v in vals})},
                            what=f"{describe(vals)} on {d} fails={fails}: {got} expected {('ok' if exp_ok else 'err', exp_errors)}"[:500],
                        )
                    )


def class_space(tier: str) -> Iterator[Tuple[List[tuple], bool]]:
    singles = [(deps, kind, style) for deps in subsets() for kind in KINDS for style in STYLES]
    for deps, kind, style in singles:
        yield [("v0", deps, kind, style)], False
    # pairs: full cross of (deps, kind), styles covered pairwise
    dk = [(deps, kind) for deps in subsets() for kind in KINDS]
    for (d0, k0), (d1, k1) in itertools.product(dk, dk):
        for s0, s1 in (("raise", "yield"), ("yield_path", "raise")) if tier == "thorough" else (("raise", "yield_path"),):
            yield [("v0", d0, k0, s0), ("v1", d1, k1, s1)], False
    # inheritance
    for (d0, k0), (d1, k1) in itertools.product(dk, dk):
        if all(d in ("a_x", "b") for d in d0) and k0[1] in (None, "a_x", "b"):
            yield [("v0", d0, k0, "raise"), ("v1", d1, k1, "raise")], True
    # validators reading no field (empty dependency set): never run, whatever the data; alone and next to another one
    for kind in [("plain", None), ("field", "b"), ("discard", "a_x")]:
        for style in ("raise", "yield"):
            yield [("v0", (), kind, style)], False
    for d1, k1 in dk:
        if k1[0] in ("plain", "field"):
            yield [("v0", (), ("plain", None), "raise"), ("v1", d1, k1, "raise")], False
            yield [("v0", d1, k1, "raise"), ("v1", (), ("discard", "c"), "yield")], False
    # generic classes deserialized through a parametrized alias
    for deps, kind, style in singles:
        yield [("v0", deps, kind, style)], "generic"
    for (d0, k0), (d1, k1) in itertools.product(dk, dk):
        if k0[0] in ("plain", "field") and k1[0] in ("plain", "discard"):
            yield [("v0", d0, k0, "raise"), ("v1", d1, k1, "yield_path")], "generic"
    # the first validator takes an init-only parameter (InitVar field): a declared dependency besides the attributes read;
    # alone, and inherited by a subclass overriding the helper it reads
    for (d0, k0), (d1, k1) in itertools.product(dk, dk):
        if k0[0] == "plain" and k1[0] in ("plain", "discard") and len(d1) == 1:
            yield [("v0", d0, k0, "raise"), ("v1", d1, k1, "raise")], "param"
            if "b" in d0 and all(d in ("a_x", "b") for d in d0):
                yield [("v0", d0, k0, "raise"), ("v1", d1, k1, "raise")], "override_param"
    # a_x read through mutually recursive helpers, entered by a different helper in each validator
    for (d0, k0), (d1, k1) in itertools.product(dk, dk):
        if "a_x" in d0 and "a_x" in d1 and k0[0] in ("plain", "discard") and k1[0] in ("plain", "field"):
            yield [("v0", d0, k0, "raise"), ("v1", d1, k1, "raise")], "cycle"
    # a helper method read by the inherited validator is overridden in the subclass
    for (d0, k0), (d1, k1) in itertools.product(dk, dk):
        if "b" in d0 and all(d in ("a_x", "b") for d in d0) and k0[1] in (None, "a_x", "b") and k1[0] in ("plain", "discard"):
            yield [("v0", d0, k0, "raise"), ("v1", d1, k1, "raise")], "override"
    # three validators (successive discards accumulate): reduced alphabet; thorough adds the third dependency pair
    small_deps = (("a_x",), ("b",), ("b", "c"), ("a_x", "c")) if tier == "thorough" else (("a_x",), ("b",), ("a_x", "c"))
    if True:
        small = [(deps, kind) for deps in small_deps for kind in [("plain", None), ("field", "b"), ("discard", "c"), ("discard", "a_x"), ("field_discard", "a_x>c")]]
        for a, b, c in itertools.product(small, small, small):
            yield [("v0", a[0], a[1], "raise"), ("v1", b[0], b[1], "yield"), ("v2", c[0], c[1], "raise")], False


BATCH = 40


SKIP_SRC = """
@dataclass
class Sk:
    a: int = 0
    s: int = field(default=0, metadata=skip(serialization=True))      # deserialized, never serialized
    d: int = field(default=5, metadata=skip(deserialization=True))    # serialized, never deserialized
    f: List[int] = field(default_factory=list, metadata=skip(serialization=True))   # the same with a default factory (never given below)
    CALLS = []
    @validator
    def chk_s(self):
        Sk.CALLS.append(("chk_s", self.s))
        if self.s > 0:
            raise ValidationError("s is positive")
    @validator
    def chk_f(self):
        Sk.CALLS.append(("chk_f", list(self.f), self.a))
        if len(self.f) == self.a:
            raise ValidationError("len(f) equals a")
    @validator
    def chk_both(self):
        Sk.CALLS.append(("chk_both", self.s, self.a))
        if self.s == self.a:
            raise ValidationError("s equals a")
"""


def run_skipped_fields(st):
    """validators reading a field skipped in one direction only: a field with skip(serialization=True) is deserialized like
    any other (the validator sees its value, also when another field is invalid and the validator runs on the partial object);
    a field with skip(deserialization=True) is never read from the data"""
    mod = exec_source(PRELUDE + SKIP_SRC)
    Sk = mod.Sk
    try:
        for a in (0, 1, "bad", None):          # None: absent
            for s_ in (0, 1, "bad", None):
                for d in (None, 7):
                    datum = {}
                    if a is not None:
                        datum["a"] = a
                    if s_ is not None:
                        datum["s"] = s_
                    if d is not None:
                        datum["d"] = d
                    va, vs = (0 if a is None else a), (0 if s_ is None else s_)
                    exp = []
                    if a == "bad":
                        exp.append((("a",), "expected type integer, found string"))
                    if s_ == "bad":
                        exp.append((("s",), "expected type integer, found string"))
                    if d is not None:
                        exp.append((("d",), "unexpected property"))
                    exp_calls = []
                    # a validator runs when none of the fields it reads is invalid and at least one of them was given
                    if s_ not in ("bad", None):
                        exp_calls.append(("chk_s", vs))
                        if vs > 0:
                            exp.append(((), "s is positive"))
                    if a not in ("bad", None):
                        exp_calls.append(("chk_f", [], va))
                        if va == 0:
                            exp.append(((), "len(f) equals a"))
                    if s_ != "bad" and a != "bad" and (s_ is not None or a is not None):
                        exp_calls.append(("chk_both", vs, va))
                        if vs == va:
                            exp.append(((), "s equals a"))
                    del Sk.CALLS[:]
                    st.case("skipped_fields", repr(a), repr(s_), d)
                    try:
                        apischema.deserialize(Sk, datum)
                        got = []
                    except apischema.ValidationError as e:
                        got = [(tuple(x["loc"]), x["err"]) for x in e.errors]
                    except Exception as e:
                        st.violation({"signature": {"kind": "non_termination_or_crash", "exc": type(e).__name__, "world": "skipped_fields"}, "what": f"Sk <- {datum}: {e!r}"[:300]})
                        continue
                    if sorted(got) != sorted(exp) or sorted(Sk.CALLS, key=repr) != sorted(exp_calls, key=repr):
                        st.violation({"signature": {"kind": "validators_mismatch", "world": "skipped_fields"}, "what": f"Sk <- {datum}: errors {sorted(got)} validator calls {Sk.CALLS}; expected {sorted(exp)} / {exp_calls}"[:500]})
    finally:
        sys.modules.pop(mod.__name__, None)
        apischema.cache.reset()


def work(tier, widx, nworkers, st, extra):
    sys.setrecursionlimit(300)
    signal.signal(signal.SIGALRM, _alarm)
    batch = []

    def flush():
        if not batch:
            return
        src = []
        metas = []
        for k, (vals, inherit) in enumerate(batch):
            cname = f"V{k}"
            s = class_src(cname, vals, inherit)
            if not s:
                continue
            src.append(s)
            metas.append((cname, vals, inherit))
        try:
            mod = exec_source(PRELUDE + "import functools\nfrom apischema.objects import get_alias\nTVc = TypeVar('TVc')\n" + "\n".join(src))
        except Exception as e:
            st.violation({"signature": {"kind": "harness_error"}, "harness_error": True, "what": "generated module failed", "traceback": repr(e) + "\n" + "\n".join(src)[:1500]})
            batch.clear()
            return
        for cname, vals, inherit in metas:
            run_class(mod, cname, vals, inherit, st)
        st.count("classes", len(metas))
        sys.modules.pop(mod.__name__, None)
        apischema.cache.reset()
        batch.clear()

    if widx == 0:
        try:
            run_skipped_fields(st)
        except Exception:
            import traceback

            st.violation({"signature": {"kind": "harness_error"}, "harness_error": True, "what": "skipped fields", "traceback": traceback.format_exc()[-2000:]})
    for i, c in enumerate(class_space(tier)):
        if (i // BATCH) % nworkers != widx:
            continue
        batch.append(c)
        if len(batch) >= BATCH:
            flush()
    flush()
    st.sample({"class": describe([("v0", ("a_x", "b"), ("discard", "c"), "yield_path")]), "datum": {"a_x": 1, "bee": "x"}, "fails": {"v0": True}})


def main(tier: str, t0: float) -> int:
    st = infra.run_pool("vf.checks.c10", tier)
    return infra.finish(
        PROP,
        tier,
        st,
        t0,
        rule=RULE,
        coverage_extra={"exhaustive": True, "bounds": {"fields": 3, "validators": 2 if tier == "quick" else 3}},
        assumptions=[
            "a field is 'valid' when present and well-typed, 'invalid' when ill-typed or required and absent; defaulted (absent) fields are neither provided nor invalid",
            "validator(field) implies discard of that field, as documented",
        ],
    )


def replay(path: str) -> int:
    v = json.load(open(path))
    st = infra.Stats()
    sys.setrecursionlimit(300)
    signal.signal(signal.SIGALRM, _alarm)
    vals = eval(v["validators"])
    src = class_src("V0", vals, v["inherit"])
    mod = exec_source(PRELUDE + "import functools\nfrom apischema.objects import get_alias\nTVc = TypeVar('TVc')\n" + src)
    run_class(mod, "V0", vals, v["inherit"], st)
    hits = [x for x in st.violations if x.get("signature") == v.get("signature")]
    for x in hits[:3]:
        print(f"VIOLATION property=C10 replay={path}")
        print(" ", x["what"])
    return 1 if hits else 0
