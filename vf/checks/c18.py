"""C18 — schema dialect conversion preserves the set of valid instances.
E1: types x target version x data; oracle = the validator of each dialect (jsonschema) + a
vocabulary walk of the converted schema."""
from __future__ import annotations

import copy
import dataclasses
import json
from typing import Annotated, Any, Callable, Dict, List, Optional, Union

from .. import infra
from ..data import enumerate_data
from ..grammar import gen_types, well_formed
from ..refmodel.deser import Ctx
from ..tast import short
from . import deser_common as dc

import apischema
from apischema.json_schema import JsonSchemaVersion, definitions_schema, deserialization_schema, serialization_schema

import jsonschema
from jsonschema import Draft7Validator, Draft201909Validator, Draft202012Validator

PROP = "C18"
RULE = (
    "every type of the grammar (so every keyword the builder emits, nested in $defs, anyOf, properties, items, prefixItems, "
    "patternProperties, additionalProperties) x target version in {2019-09, draft-07, OpenAPI 3.0, OpenAPI 3.1} x both "
    "schema functions: (a) on every datum at <=1 deviation the converted schema under its own validator (Draft201909, "
    "Draft7; OpenAPI 3.0 through its documented mapping back to draft-07; $refs resolved against definitions_schema of the "
    "same version mounted under components/schemas) accepts exactly what the 2020-12 schema accepts (minus the keywords "
    "OpenAPI 3.0 drops explicitly); (b) a recursive walk of the converted schema finds no keyword outside the target "
    "vocabulary and only the target reference prefix. distinct_nontrivial counts distinct (ctor-pair shape, version, "
    "side, keyword set of the converted schema) tuples."
)

SUBSCHEMA_DICT = ("properties", "patternProperties", "$defs", "definitions", "dependentSchemas")
SUBSCHEMA_LIST = ("allOf", "anyOf", "oneOf", "prefixItems")
SUBSCHEMA_ONE = ("additionalProperties", "additionalItems", "not", "if", "then", "else", "unevaluatedProperties", "unevaluatedItems", "contains", "propertyNames")

FORBIDDEN = {
    "2019-09": {"prefixItems"},
    "draft-07": {"prefixItems", "$defs", "dependentRequired", "dependentSchemas", "unevaluatedProperties", "unevaluatedItems"},
    "oas3.0": {"prefixItems", "$defs", "definitions", "dependentRequired", "dependencies", "unevaluatedProperties", "unevaluatedItems", "additionalItems", "const", "examples", "$schema", "patternProperties_", "propertyNames"},
    "oas3.1": set(),
}
PREFIX = {"2019-09": "#/$defs/", "draft-07": "#/definitions/", "oas3.0": "#/components/schemas/", "oas3.1": "#/components/schemas/"}
VERSIONS = {
    "2019-09": JsonSchemaVersion.DRAFT_2019_09,
    "draft-07": JsonSchemaVersion.DRAFT_7,
    "oas3.0": JsonSchemaVersion.OPEN_API_3_0,
    "oas3.1": JsonSchemaVersion.OPEN_API_3_1,
}
OAS30_DROPPED = ("dependentRequired", "unevaluatedProperties", "additionalItems", "propertyNames")


def walk_schema(s: Any, fn: Callable[[dict, tuple], None], path=()):
    if isinstance(s, bool) or not isinstance(s, dict):
        return
    fn(s, path)
    for k in SUBSCHEMA_DICT:
        if isinstance(s.get(k), dict):
            for name, sub in s[k].items():
                walk_schema(sub, fn, path + (k, name))
    for k in SUBSCHEMA_LIST:
        if isinstance(s.get(k), list):
            for i, sub in enumerate(s[k]):
                walk_schema(sub, fn, path + (k, i))
    for k in SUBSCHEMA_ONE:
        if isinstance(s.get(k), dict):
            walk_schema(s[k], fn, path + (k,))
    it = s.get("items")
    if isinstance(it, dict):
        walk_schema(it, fn, path + ("items",))
    elif isinstance(it, list):
        for i, sub in enumerate(it):
            walk_schema(sub, fn, path + ("items", i))


def vocabulary_problems(schema: dict, vname: str) -> List[str]:
    out: List[str] = []

    def visit(s: dict, path):
        for k in s:
            if k in FORBIDDEN[vname]:
                out.append(f"keyword {k!r} at {list(path)}")
        if vname == "oas3.0":
            t = s.get("type")
            if isinstance(t, list):
                out.append(f"type array {t} at {list(path)}")
            if t == "null":
                out.append(f"type null at {list(path)}")
            for kw in ("exclusiveMinimum", "exclusiveMaximum"):
                if kw in s and not isinstance(s[kw], bool):
                    out.append(f"numeric {kw} at {list(path)} (a boolean modifier of minimum / maximum in OpenAPI 3.0)")
        r = s.get("$ref")
        if isinstance(r, str) and not r.startswith(PREFIX[vname]):
            out.append(f"$ref {r!r} without prefix {PREFIX[vname]!r} at {list(path)}")
        if vname == "draft-07" and "$ref" in s and len(s) > 1:
            out.append(f"$ref with siblings {sorted(s)} at {list(path)} (ignored by draft-07)")

    walk_schema(schema, visit)
    return out


def strip_keywords(schema: Any, keys) -> Any:
    s = copy.deepcopy(schema)

    def visit(d: dict, path):
        for k in keys:
            d.pop(k, None)

    walk_schema(s, visit)
    return s


def oas30_to_draft7(schema: Any) -> Any:
    """documented mapping of OpenAPI 3.0 schema objects onto JSON Schema: nullable adds null to the
    sibling type (only); example is an annotation"""
    s = copy.deepcopy(schema)

    def visit(d: dict, path):
        if d.pop("nullable", False):
            t = d.get("type")
            if isinstance(t, str):
                d["type"] = [t, "null"]
            elif t is None and ("anyOf" in d or "oneOf" in d or "allOf" in d or "$ref" in d):
                # nullable without sibling type: wrap (OAS 3.0.3 leaves it without effect; apischema
                # relies on the wide-spread reading "or null")
                inner = {k: d.pop(k) for k in list(d) if k in ("anyOf", "oneOf", "allOf", "$ref")}
                d["anyOf"] = [inner, {"type": "null"}]
        d.pop("example", None)
        # exclusiveMinimum / exclusiveMaximum: boolean modifiers of minimum / maximum (draft-04 style)
        for kw, bound in (("exclusiveMinimum", "minimum"), ("exclusiveMaximum", "maximum")):
            if isinstance(d.get(kw), bool):
                if d.pop(kw) and bound in d:
                    d[kw] = d.pop(bound)

    walk_schema(s, visit)
    return s


def validator_for(vname: str, schema: dict, defs: dict):
    doc = copy.deepcopy(schema)
    if vname in ("oas3.0", "oas3.1"):
        doc = dict(doc)
        doc["components"] = {"schemas": copy.deepcopy(defs)}
    if vname == "oas3.0":
        doc = oas30_to_draft7(doc)
        comps = doc.get("components", {}).get("schemas", {})
        doc["components"] = {"schemas": {k: oas30_to_draft7(v) for k, v in comps.items()}}
        return Draft7Validator(doc)
    if vname == "oas3.1":
        return Draft202012Validator(doc)
    if vname == "draft-07":
        return Draft7Validator(doc)
    return Draft201909Validator(doc)


def keyword_set(schema: dict) -> tuple:
    ks = set()

    def visit(d, path):
        ks.update(d.keys())

    walk_schema(schema, visit)
    return tuple(sorted(ks))


def check_versions(tp, data, label, type_repr, source, shape, deser_only, st, extra_kw=None):
    extra_kw = extra_kw or {}
    sides = [("deser", deserialization_schema, "deserialization"), ("ser", serialization_schema, "serialization")]
    if deser_only:
        sides = sides[:1]
    for side, fn, defkey in sides:
        try:
            ref_schema = json.loads(json.dumps(fn(tp, **extra_kw)))
            ref_validator = Draft202012Validator(ref_schema)
            ref_verdicts = [ref_validator.is_valid(d) for d in data]
        except Exception as e:
            st.count("reference_schema_failed(C06/C17 report it)")
            continue
        ref_validator30 = None
        for vname, version in VERSIONS.items():
            base = {"label": label, "type": type_repr, "options": [side, vname], "source": source}
            try:
                conv = json.loads(json.dumps(fn(tp, version=version, **extra_kw)))
                defs = {}
                if vname in ("oas3.0", "oas3.1"):
                    defs = json.loads(json.dumps(definitions_schema(**{defkey: [tp]}, version=version, **{k: v for k, v in extra_kw.items() if k in ("aliaser", "additional_properties")})))
            except Exception as e:
                st.violation(dict(base, signature={"kind": "conversion_exception", "exc": type(e).__name__, "version": vname}, what=f"{fn.__name__}(version={vname}) raised {e!r}"[:300]))
                continue
            st.case(shape, vname, side, keyword_set(conv))
            probs = vocabulary_problems(conv, vname)
            for dname, dschema in defs.items():
                probs += [f"definitions[{dname}]: " + p for p in vocabulary_problems(dschema, vname)]
            if probs:
                import re as _re

                kw = sorted({_re.sub(r"^definitions\[\w+\]: ", "", p.split(" at ")[0]) for p in probs})
                st.violation(
                    dict(
                        base,
                        signature={"kind": "vocabulary", "version": vname, "what": kw[:3]},
                        what=f"converted schema uses vocabulary outside {vname}: {probs[:3]}"[:400],
                        schema=json.dumps(conv)[:1200],
                    )
                )
            try:
                v = validator_for(vname, conv, defs)
                verdicts = [v.is_valid(d) for d in data]
            except Exception as e:
                st.violation(dict(base, signature={"kind": "validator_exception", "exc": type(e).__name__, "version": vname}, what=f"validating with the {vname} validator raised {e!r}"[:300], schema=json.dumps(conv)[:1200]))
                continue
            expected = ref_verdicts
            if vname == "oas3.0":
                if ref_validator30 is None:
                    ref_validator30 = [Draft202012Validator(strip_keywords(ref_schema, OAS30_DROPPED)).is_valid(d) for d in data]
                expected = ref_validator30
            st.count("validations", len(data))
            for d, a, b in zip(data, verdicts, expected):
                if a != b:
                    st.violation(
                        dict(
                            base,
                            datum=repr(d),
                            signature={"kind": "instances_differ", "version": vname, "converted_accepts": a, "keywords": [k for k in ("prefixItems", "items", "nullable", "anyOf", "const", "enum", "dependencies", "definitions", "allOf") if k in json.dumps(conv)][:4]},
                            what=f"{vname} schema {'accepts' if a else 'rejects'} {d!r} but the 2020-12 schema {'accepts' if b else 'rejects'} it"[:300],
                            schema=json.dumps(conv)[:1200],
                            reference=json.dumps(ref_schema)[:1200],
                        )
                    )
                    break


def check_both_sides(tp, label, type_repr, source, shape, st):
    """definitions shared by deserialization and serialization (merged, with readOnly / writeOnly copies of the
    one-sided properties) must be in the requested dialect at every level too"""
    for vname, version in VERSIONS.items():
        try:
            both = json.loads(json.dumps(definitions_schema(deserialization=[tp], serialization=[tp], version=version, all_refs=True)))
        except TypeError as e:
            if "different schemas" in str(e):
                continue
            st.violation({"label": label, "type": type_repr, "options": ["both", vname], "signature": {"kind": "conversion_exception", "exc": "TypeError", "version": vname, "side": "both"}, "what": f"definitions_schema(both, version={vname}) raised {e!r}"[:300], "source": source})
            continue
        except Exception:
            continue  # C17 reports it
        st.case(shape, vname, "both", tuple(sorted(both)))
        probs = []
        for dname, dschema in both.items():
            probs += [f"definitions[{dname}]: " + p for p in vocabulary_problems(dschema, vname)]
        if probs:
            import re as _re

            kw = sorted({_re.sub(r"^definitions\[\w+\]: ", "", p.split(" at ")[0]) for p in probs})
            st.violation({"label": label, "type": type_repr, "options": ["both", vname], "signature": {"kind": "vocabulary", "version": vname, "what": kw[:3], "side": "both"}, "what": f"definitions_schema(deserialization + serialization) uses vocabulary outside {vname}: {probs[:3]}"[:400], "schema": json.dumps(both)[:1200], "source": source})


def run_type(i, label, spec, tier, st):
    env = dc.build_env(spec)
    ctx0 = Ctx(env=env)
    if well_formed(spec, ctx0) or "flat_nested" in label:
        return
    lvl = dc.level_of(label)
    case = dc.Case(label, spec)
    try:
        rz = case.realize()
    except Exception as e:
        st.violation({"label": label, "signature": {"kind": "realize_error"}, "what": repr(e)[:300], "harness_error": True, "traceback": repr(e)})
        return
    st.count("types")
    if i % 101 == 0:
        st.sample({"type": short(spec), "label": label})
    data = [d for _, d in enumerate_data(spec, ctx0, k=1, wide=lvl <= 1)]
    check_versions(rz.tp, data, label, short(spec), rz.source, dc.shape_of(label), lvl > 1 and tier == "quick", st)
    if lvl <= 1 or tier == "thorough":
        check_both_sides(rz.tp, label, short(spec), rz.source, dc.shape_of(label), st)
    case.drop()
    dc.periodic_reset(i)


WORLD_SRC = '''
@discriminator("kind")
@dataclass
class Payment:
    amount: int = 0
    card: Optional[str] = None
    cvv: Optional[str] = None
dependent_required({"card": ["cvv"]}, owner=Payment)
@dataclass
class Online(Payment):
    url: str = ""
@dataclass
class Shop(Payment):
    till: Tuple[int, str] = (0, "")
@schema(description="annotated parent")
@discriminator("sort")
@dataclass
class Shape:
    name: Optional[Literal["a"]] = None
    tags: Tuple[int, int] = (0, 0)
@dataclass
class Disc(Shape):
    r: Optional[int] = None
@dataclass
class Holder:
    pay: Payment = field(default_factory=Shop)
    shapes: List[Shape] = field(default_factory=list)
Ann = Annotated[Union[Online, Shop], discriminator("type")]
Exc1 = Annotated[int, schema(exc_min=0, exc_max=10)]
Exc2 = Annotated[float, schema(exc_min=0, min=5, exc_max=10, max=20)]
Exc3 = Annotated[float, schema(exc_min=5, min=0, exc_max=10, max=10)]
@dataclass
class Bounds:
    a: Exc1 = 1
    b: List[Exc2] = field(default_factory=list)
    c: Optional[Exc3] = None

# a recursive root (referenced: its schema is a $ref next to the definitions) carrying validation keywords of its own
@dataclass
class RecNode:
    value: int = 0
    children: List["RecNode"] = field(default_factory=list)
RecNodeCapped = Annotated[RecNode, schema(max_props=1)]

# names an aliaser rewrites, on both sides of a dependency and in required / properties, at the root and nested
@dataclass
class Billing:
    full_name: str
    credit_card: Optional[int] = None
    billing_address: Optional[str] = None
dependent_required({"credit_card": ["billing_address"]}, owner=Billing)
@dataclass
class Order:
    bill_to: Billing
    all_bills: List[Billing] = field(default_factory=list)
'''


def run_worlds(st):
    """discriminated parents / children / annotated unions (outside the C01 grammar): their definitions carry keywords
    (dependentRequired, prefixItems, const, type arrays) that every dialect must convert at every level"""
    import sys

    from ..realize import PRELUDE, exec_source

    m = exec_source(PRELUDE + WORLD_SRC)
    pay = [{"kind": "Online"}, {"kind": "Online", "amount": 1, "card": "4000"}, {"kind": "Online", "card": "4", "cvv": "1"}, {"kind": "Shop", "till": [1, "a"]}, {"kind": "Shop", "till": [1]},
           {"kind": "Shop", "till": ["a", 1]}, {"kind": "nope"}, {}, {"amount": "x", "kind": "Online"}, {"kind": "Online", "url": 3}, None, []]
    shp = [{"sort": "Disc"}, {"sort": "Disc", "name": "a", "r": None}, {"sort": "Disc", "name": "b"}, {"sort": "Disc", "tags": [1, 2]}, {"sort": "Disc", "tags": [1]}, {"sort": "Disc", "r": "x"}, {}, None]
    targets = [
        ("Payment", m.Payment, pay),
        ("Online", m.Online, [{k: v for k, v in d.items() if k != "kind"} if isinstance(d, dict) else d for d in pay]),
        ("ListPayment", List[m.Payment], [[d] for d in pay] + [[]]),
        ("Shape", m.Shape, shp),
        ("Holder", m.Holder, [{}, {"pay": pay[1]}, {"pay": pay[2]}, {"shapes": [shp[1], shp[4]]}, {"shapes": [shp[3]]}, {"pay": pay[4]}]),
        ("Exc1", m.Exc1, [0, 1, 9, 10, -1, 11, 5.5, "a"]),
        ("Exc2", m.Exc2, [0, 4.5, 5, 7.5, 10, 10.5, 20]),
        ("Exc3", m.Exc3, [0, 5, 5.5, 9.5, 10, 11]),
        ("Bounds", m.Bounds, [{}, {"a": 0}, {"a": 10}, {"a": 5, "b": [5, 9.5]}, {"b": [4]}, {"b": [10]}, {"c": 5}, {"c": 6}, {"c": None}, {"c": 10}]),
        ("RecNodeCapped", m.RecNodeCapped, [{}, {"value": 1}, {"children": []}, {"value": 1, "children": []}, {"children": [{"value": 2, "children": []}]}, {"children": [{"value": "x"}]}]),
        ("Ann", m.Ann, [{"type": "Online"}, {"type": "Online", "card": "4"}, {"type": "Shop", "till": [1, "a"]}, {"type": "Shop", "till": [1]}, {"type": "x"}, {}]),
    ]
    try:
        for name, tp, data in targets:
            check_versions(tp, data, "world:" + name, name, WORLD_SRC, "world:" + name, False, st)
            check_both_sides(tp, "world:" + name, name, WORLD_SRC, "world:" + name, st)
        # keywords given through the schema= parameter of the call sit at the root like any other: converted too
        from apischema import schema as _schema

        for name, tp, data, sch in (
            ("float@schema=exc", float, [-1, 0, 0.5, 5, 10, 11, "a"], _schema(exc_min=0, exc_max=10, examples=[1.5])),
            ("RecNode@schema=max_props", m.RecNode, [{}, {"value": 1}, {"value": 1, "children": []}, {"children": [{"value": 2, "children": []}]}], _schema(max_props=1)),
            ("Exc2@schema=min", m.Exc2, [0, 4.5, 5, 7.5, 10, 20], _schema(min=6, description="d")),
            ("int@schema=no_examples", int, [0, 1, "a"], _schema(examples=(), min=0)),
            ("int@schema=two_examples", int, [0, 1, "a"], _schema(examples=[1, 2], min=0)),
        ):
            check_versions(tp, data, "world:" + name, name, WORLD_SRC, "world:" + name, False, st, extra_kw={"schema": sch})
        # names rewritten by an aliaser (given at the call, then through the settings): every name-bearing keyword follows in every dialect
        from apischema.utils import to_camel_case

        bills = [{"fullName": "n"}, {"fullName": "n", "creditCard": 1}, {"fullName": "n", "creditCard": 1, "billingAddress": "x"}, {"fullName": "n", "billingAddress": "x"},
                 {"full_name": "n"}, {"fullName": "n", "credit_card": 1, "billing_address": "x"}, {"creditCard": 1, "billingAddress": "x"}, {}]
        aliased = [
            ("Billing", m.Billing, bills),
            ("ListBilling", List[m.Billing], [[b] for b in bills] + [[]]),
            ("Order", m.Order, [{"billTo": b} for b in bills] + [{"billTo": bills[2], "allBills": [b]} for b in bills] + [{"bill_to": bills[2]}]),
        ]
        for name, tp, data in aliased:
            check_versions(tp, data, f"world:{name}@aliaser=camel", name, WORLD_SRC, f"world:{name}@aliaser", False, st, extra_kw={"aliaser": to_camel_case})
            check_versions(tp, data, f"world:{name}@aliaser=camel,all_refs", name, WORLD_SRC, f"world:{name}@aliaser", False, st, extra_kw={"aliaser": to_camel_case, "all_refs": True})
        try:
            from apischema import settings as _settings

            _settings.aliaser = to_camel_case
            for name, tp, data in aliased:
                check_versions(tp, data, f"world:{name}@settings.aliaser=camel", name, WORLD_SRC, f"world:{name}@settings.aliaser", False, st)
        finally:
            dc.world.restore_settings()
        # keywords supplied by the user through schema(extra=...) next to a reference / a type array: converting to a dialect
        # is repeatable (the same document at every generation) and leaves what the user supplied untouched
        import copy

        from apischema.json_schema import definitions_schema as _defs

        extra_allof = {"allOf": [{"minProperties": 0}]}
        extra_anyof = {"anyOf": [{"minimum": 0}]}
        snap = copy.deepcopy((extra_allof, extra_anyof))
        RecX = Annotated[m.RecNode, _schema(extra=extra_allof)]
        MultiX = Annotated[Union[int, str, None], _schema(extra=extra_anyof)]
        HoldX = dataclasses.make_dataclass("HoldX", [("r", RecX, dataclasses.field(default_factory=m.RecNode)), ("u", MultiX, dataclasses.field(default=None))])
        for name, tp, data in (
            ("RecX", RecX, [{}, {"value": 1}, {"children": [{"value": 2, "children": []}]}, {"value": "x"}, 3]),
            ("MultiX", MultiX, [0, -1, "s", None, 1.5, []]),
            ("HoldX", HoldX, [{}, {"r": {"value": 1}}, {"u": -1}, {"u": "s", "r": {"children": []}}, {"r": 3}]),
        ):
            check_versions(tp, data, "world:" + name + "@extra", name, WORLD_SRC, "world:" + name + "@extra", False, st)
            for vname, version in VERSIONS.items():
                for fn in (deserialization_schema, serialization_schema):
                    st.case("world", "repeatable", name, vname, fn.__name__)
                    docs = [json.dumps(fn(tp, version=version), sort_keys=True) for _ in range(3)]
                    if len(set(docs)) != 1 or (extra_allof, extra_anyof) != snap:
                        st.violation({"label": "world:" + name + "@extra", "options": [vname, fn.__name__], "signature": {"kind": "not_repeatable", "version": vname, "user_keywords_modified": (extra_allof, extra_anyof) != snap}, "what": f"{fn.__name__}({name}, version={vname}) generated three times gives {len(set(docs))} different documents; user-supplied extra now {extra_allof} / {extra_anyof}"[:500]})
                        extra_allof["allOf"][:] = copy.deepcopy(snap[0]["allOf"])
                        extra_anyof["anyOf"][:] = copy.deepcopy(snap[1]["anyOf"])
        # the conversion to a version is itself a serialization: global serialization settings must not leak into it
        from apischema import PassThroughOptions, settings

        for sname, setter in (
            ("pass_through_any", lambda: setattr(settings.serialization, "pass_through", PassThroughOptions(any=True))),
            ("pass_through_all", lambda: setattr(settings.serialization, "pass_through", PassThroughOptions(any=True, collections=True, dataclasses=True, enums=True, tuple=True))),
            ("exclude_none+defaults", lambda: (setattr(settings.serialization, "exclude_none", True), setattr(settings.serialization, "exclude_defaults", True))),
            ("check_type+fall_back_on_any", lambda: (setattr(settings.serialization, "check_type", True), setattr(settings.serialization, "fall_back_on_any", True))),
        ):
            try:
                setter()
                for name, tp, data in targets[:4]:
                    check_versions(tp, data, f"world:{name}@{sname}", name, WORLD_SRC, f"world:{name}@{sname}", True, st)
            finally:
                dc.world.restore_settings()
    finally:
        sys.modules.pop(m.__name__, None)
        apischema.cache.reset()
    st.count("worlds", len(targets))


def work(tier, widx, nworkers, st, extra):
    import os

    if widx == 0 and os.environ.get("VERIF_ONLY") in (None, "", "world"):
        run_worlds(st)
    for i, label, spec in dc.my_types(tier, widx, nworkers):
        run_type(i, label, spec, tier, st)


def main(tier: str, t0: float) -> int:
    st = infra.run_pool("vf.checks.c18", tier)
    st.counters["evaluations"] = st.counters.get("evaluations", 0) + st.counters.get("validations", 0)
    return infra.finish(
        PROP,
        tier,
        st,
        t0,
        rule=RULE,
        coverage_extra={"exhaustive": True, "bounds": {"nesting": 2, "deviations": 1}, "oracle": "jsonschema " + jsonschema.__version__ + " Draft7 / Draft201909 / Draft202012 validators"},
        assumptions=[
            "OpenAPI 3.0 is validated through its documented mapping (nullable -> null added to the sibling type; example annotation) as draft-07",
            "OpenAPI documents resolve $ref against definitions_schema(version=V) mounted under components/schemas",
        ],
    )


def replay(path: str) -> int:
    v = json.load(open(path))
    st = infra.Stats()
    for lab, spec in gen_types("thorough"):
        if lab == v["label"]:
            run_type(1, lab, spec, "thorough", st)
            break
    hits = [x for x in st.violations if x.get("signature") == v.get("signature")]
    for x in hits[:3]:
        print(f"VIOLATION property=C18 replay={path}")
        print(" ", x["what"])
    return 1 if hits else 0
