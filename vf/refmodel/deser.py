"""Reference semantics of deserialization, written over TypeSpec from the documentation
(docs/data_model.md, de_serialization.md, validation.md, json_schema.md).  Shares no code with
apischema.  Returns Ok(value) / Err(tree) / UNSPEC (documentation silent -> not compared)."""
from __future__ import annotations

import copy
import re
from dataclasses import dataclass, field
from typing import Any, Callable, Dict, List, Optional, Tuple

from ..tast import (
    AnyT,
    Coll,
    Con,
    EnumT,
    F,
    Gen,
    Lit,
    MapT,
    NewT,
    Obj,
    Prim,
    Ref,
    Std,
    T,
    Tup,
    TVar,
    Uni,
    Unsup,
)


# ----------------------------------------------------------------------------- values
@dataclass(frozen=True)
class VEnum:
    enum: str
    member: str


class VObj:
    """abstract instance of a dataclass / NamedTuple"""

    def __init__(self, cls: str, kind: str, fields: Dict[str, Any], present=None, noinit=(), ctor=None):
        self.cls = cls
        self.kind = kind
        self.fields = fields
        self.ctor = ctor  # constructor arguments when they differ from the final field values (__post_init__ effects)
        self.present = present  # names of fields present in the datum (for fields_set)
        self.noinit = set(noinit)  # fields that are not constructor parameters

    def __repr__(self):
        return f"VObj({self.cls}, {self.fields})"

    def __eq__(self, other):
        return isinstance(other, VObj) and self.cls == other.cls and self.fields == other.fields

    def __hash__(self):
        return hash((self.cls, tuple(sorted((k, repr(v)) for k, v in self.fields.items()))))


class VUndefined:
    def __repr__(self):
        return "Undefined"

    def __deepcopy__(self, memo):
        return self

    def __copy__(self):
        return self


UNDEF = VUndefined()


class VAlts:
    """value of a union: `first` is what try-each gives; `others` are values produced by later
    accepting alternatives (a shortcut may return one of those provided it == first)"""

    def __init__(self, first, others):
        self.first = first
        self.others = others

    def __repr__(self):
        return f"VAlts({self.first!r}, {self.others!r})"

    def __eq__(self, other):
        return self.first == (other.first if isinstance(other, VAlts) else other)

    def __hash__(self):
        return hash(self.first)


# ----------------------------------------------------------------------------- errors
class E:
    def __init__(self, msgs=None, children=None):
        self.msgs: List[Optional[str]] = list(msgs or [])
        self.children: Dict[Any, "E"] = dict(children or {})

    def __bool__(self):
        return bool(self.msgs or self.children)

    def add(self, other: "E"):
        self.msgs.extend(other.msgs)
        for k, c in other.children.items():
            if k in self.children:
                self.children[k].add(c)
            else:
                self.children[k] = c
        return self

    def flat(self, prefix=()) -> List[Tuple[tuple, Optional[str]]]:
        out = [(prefix, m) for m in self.msgs]
        for k in sorted(self.children, key=lambda k: (type(k).__name__, k)):
            out.extend(self.children[k].flat(prefix + (k,)))
        return out


class Ok:
    def __init__(self, value):
        self.value = value

    ok = True


class Err:
    def __init__(self, e: E):
        self.e = e

    ok = False


class _Unspec:
    ok = None

    def __repr__(self):
        return "UNSPEC"


UNSPEC = _Unspec()


class Unspecified(Exception):
    pass


WILD = None  # message wildcard

DEFAULT_ERRORS = {
    "minimum": "less than {} (minimum)",
    "maximum": "greater than {} (maximum)",
    "exclusive_minimum": "less than or equal to {} (exclusiveMinimum)",
    "exclusive_maximum": "greater than or equal to {} (exclusiveMinimum)",
    "multiple_of": "not a multiple of {} (multipleOf)",
    "min_length": "string length lower than {} (minLength)",
    "max_length": "string length greater than {} (maxLength)",
    "pattern": "not matching pattern {} (pattern)",
    "min_items": "item count lower than {} (minItems)",
    "max_items": "item count greater than {} (maxItems)",
    "unique_items": "duplicate items (uniqueItems)",
    "min_properties": "property count lower than {} (minProperties)",
    "max_properties": "property count greater than {} (maxProperties)",
    "one_of": "not one of {} (oneOf)",
    "unexpected_property": "unexpected property",
    "missing_property": "missing property",
}

JSON_NAME = {
    type(None): "null",
    bool: "boolean",
    str: "string",
    int: "integer",
    float: "number",
    list: "array",
    dict: "object",
}


def json_class(d) -> Optional[type]:
    c = type(d)
    return c if c in JSON_NAME else None


def my_camel(s: str) -> str:
    out, up = [], False
    for i, ch in enumerate(s):
        if ch == "_" and i + 1 < len(s) and (s[i + 1].islower() or s[i + 1].isdigit()) and s[i + 1].isascii():
            up = True
            continue
        out.append(ch.upper() if up else ch)
        up = False
    return "".join(out)


ALIASERS: Dict[str, Callable[[str], str]] = {
    "id": lambda s: s,
    "camel": my_camel,
    "custom": lambda s: "x-" + s,
}
CLASS_ALIASERS = {"upper": lambda s: s.upper(), "prefix": lambda s: "p_" + s}


@dataclass
class Ctx:
    additional_properties: bool = False
    fall_back_on_default: bool = False
    aliaser: str = "id"
    errors: Dict[str, Any] = field(default_factory=lambda: dict(DEFAULT_ERRORS))
    env: Dict[str, Obj] = field(default_factory=dict)
    tvars: Dict[str, T] = field(default_factory=dict)
    coerce: bool = False
    custom_coercer: Any = None
    strict_literals: bool = True

    def alias(self, s: str) -> str:
        return ALIASERS[self.aliaser](s)

    def msg(self, key: str, arg=None, data=None) -> str:
        m = self.errors[key]
        if callable(m):
            return m(arg, data)
        return m.format(arg) if arg is not None or "{}" in m else m


def bad_type(expected: str, d) -> E:
    c = json_class(d)
    if c is None:
        raise Unspecified("datum of a non-JSON class at a mismatching position")
    return E([f"expected type {expected}, found {JSON_NAME[c]}"])


# ----------------------------------------------------------------------------- constraints
NUM_KEYS = ("min", "max", "exc_min", "exc_max", "mult_of")
STR_KEYS = ("min_len", "max_len", "pattern")
LIST_KEYS = ("min_items", "max_items", "unique")
DICT_KEYS = ("min_props", "max_props")
CONS_ORDER = NUM_KEYS + STR_KEYS + LIST_KEYS + DICT_KEYS


def merge_cons(outer: Dict[str, Any], inner: Dict[str, Any]) -> Dict[str, Any]:
    """both apply; mergeable as documented (max of minimums...)"""
    out = dict(inner)
    for k, v in outer.items():
        if k not in out:
            out[k] = v
        elif k in ("min", "exc_min", "min_len", "min_items", "min_props"):
            out[k] = max(out[k], v)
        elif k in ("max", "exc_max", "max_len", "max_items", "max_props"):
            out[k] = min(out[k], v)
        elif k == "unique":
            out[k] = out[k] or v
        elif out[k] != v:
            raise Unspecified("merging " + k)
    return out


def _json_eq_key(x):
    """JSON equality classes for uniqueItems: bool distinct from numbers; 1 == 1.0"""
    if isinstance(x, bool):
        return ("b", x)
    if isinstance(x, (int, float)):
        return ("n", float(x)) if x == x else ("nan",)
    if isinstance(x, str):
        return ("s", x)
    if x is None:
        return ("z",)
    if isinstance(x, list):
        return ("l", tuple(map(_json_eq_key, x)))
    if isinstance(x, dict):
        return ("d", tuple(sorted((k, _json_eq_key(v)) for k, v in x.items())))
    raise Unspecified("non-JSON value under uniqueItems")


def _py_eq_key(x):
    if isinstance(x, list):
        return ("l", tuple(map(_py_eq_key, x)))
    if isinstance(x, dict):
        return ("d", tuple(sorted((k, _py_eq_key(v)) for k, v in x.items())))
    return x


def check_cons(cons: Dict[str, Any], d, cls: type, ctx: Ctx) -> List[str]:
    msgs = []
    if not cons:
        return msgs
    if cls in (int, float):
        if isinstance(d, float) and d != d:
            if any(k in cons for k in NUM_KEYS):
                raise Unspecified("NaN under numeric constraints")
        if "min" in cons and not d >= cons["min"]:
            msgs.append(ctx.msg("minimum", cons["min"], d))
        if "max" in cons and not d <= cons["max"]:
            msgs.append(ctx.msg("maximum", cons["max"], d))
        if "exc_min" in cons and not d > cons["exc_min"]:
            msgs.append(ctx.msg("exclusive_minimum", cons["exc_min"], d))
        if "exc_max" in cons and not d < cons["exc_max"]:
            msgs.append(ctx.msg("exclusive_maximum", cons["exc_max"], d))
        if "mult_of" in cons:
            if isinstance(d, float) and (d in (float("inf"), float("-inf"))):
                raise Unspecified("inf under multipleOf")
            if isinstance(d, float) and not d.is_integer() or isinstance(cons["mult_of"], float):
                raise Unspecified("float multipleOf")
            if int(d) % cons["mult_of"] != 0:
                msgs.append(ctx.msg("multiple_of", cons["mult_of"], d))
    elif cls is str:
        if "min_len" in cons and len(d) < cons["min_len"]:
            msgs.append(ctx.msg("min_length", cons["min_len"], d))
        if "max_len" in cons and len(d) > cons["max_len"]:
            msgs.append(ctx.msg("max_length", cons["max_len"], d))
        if "pattern" in cons and re.match(cons["pattern"], d) is None:
            msgs.append(ctx.msg("pattern", cons["pattern"], d))
    elif cls is list:
        if "min_items" in cons and len(d) < cons["min_items"]:
            msgs.append(ctx.msg("min_items", cons["min_items"], d))
        if "max_items" in cons and len(d) > cons["max_items"]:
            msgs.append(ctx.msg("max_items", cons["max_items"], d))
        if cons.get("unique"):
            # JSON equality (JSON Schema uniqueItems): true / false are not the numbers 1 / 0, 1 == 1.0
            jk = {_json_eq_key(x) for x in d}
            if len(jk) != len(d):
                msgs.append(ctx.msg("unique_items", None, d))
    elif cls is dict:
        if "min_props" in cons and len(d) < cons["min_props"]:
            msgs.append(ctx.msg("min_properties", cons["min_props"], d))
        if "max_props" in cons and len(d) > cons["max_props"]:
            msgs.append(ctx.msg("max_properties", cons["max_props"], d))
    return msgs


# ----------------------------------------------------------------------------- the model
class Rejected(Exception):
    def __init__(self, e: E):
        self.e = e


BIG = 2 ** 53


def conform(t: T, d, ctx: Ctx):
    try:
        return Ok(_c(t, d, ctx, {}))
    except Rejected as r:
        return Err(r.e)
    except Unspecified:
        return UNSPEC


def field_ext_name(o: Obj, f: F, ctx: Ctx) -> str:
    n = f.alias if f.alias is not None else f.name
    if o.class_aliaser and f.override:
        n = CLASS_ALIASERS[o.class_aliaser](n)
    return ctx.alias(n)


def deser_fields(o: Obj, ctx: Ctx) -> List[F]:
    return [f for f in all_fields(o, ctx) if f.init and f.skip not in ("all", "deser")]


def all_fields(o: Obj, ctx: Ctx) -> List[F]:
    """fields including those of base specs (base first, as dataclass inheritance does)"""
    out: List[F] = []
    for b in o.bases:
        if b in ctx.env:
            for f in all_fields(ctx.env[b], ctx):
                out = [x for x in out if x.name != f.name] + [f]
    for f in o.fields:
        if any(x.name == f.name for x in out):
            out = [f if x.name == f.name else x for x in out]
        else:
            out.append(f)
    return out


def resolve(t: T, ctx: Ctx) -> T:
    while True:
        if isinstance(t, Ref):
            t = ctx.env[t.name]
        elif isinstance(t, TVar):
            t = ctx.tvars.get(t.name, AnyT())
        else:
            return t


def flat_alts(t: Uni, ctx: "Optional[Ctx]" = None) -> list:
    """typing flattens nested unions (not through Annotated / NewType), also the ones that appear when a type variable
    of the union is substituted (Optional[T][Optional[int]] is Optional[int]): with a ctx, type variables are resolved"""
    out = []
    for a in t.alts:
        if ctx is not None and isinstance(a, TVar):
            a = resolve(a, ctx)
        if isinstance(a, Uni):
            for b in flat_alts(a, ctx):
                if b not in out:
                    out.append(b)
        elif a not in out:
            out.append(a)
    return out


def strip_none(t: T) -> T:
    if isinstance(t, Uni):
        alts = tuple(a for a in flat_alts(t) if a != Prim("none"))
        return alts[0] if len(alts) == 1 else Uni(alts)
    if isinstance(t, Con):
        return Con(strip_none(t.base), t.cons)
    return t


def flattened_aliases(t: T, ctx: Ctx) -> List[str]:
    t = resolve(t, ctx)
    if isinstance(t, Gen):
        o = t.obj
    elif isinstance(t, Obj):
        o = t
    else:
        raise Unspecified("flattened non-object")
    out = []
    for f in deser_fields(o, ctx):
        if f.flatten:
            out.extend(flattened_aliases(f.type, ctx))
        elif f.props is None:
            # the alias *before* the dynamic aliaser; caller applies ctx.alias
            n = f.alias if f.alias is not None else f.name
            if o.class_aliaser and f.override:
                n = CLASS_ALIASERS[o.class_aliaser](n)
            out.append(n)
    return out


def default_of(f: F):
    return copy.deepcopy(f.default_value)


def _c(t: T, d, ctx: Ctx, cons: Dict[str, Any]):
    t = resolve(t, ctx)
    if isinstance(t, Con):
        return _c(t.base, d, ctx, merge_cons(cons, t.cdict()))
    if isinstance(t, NewT):
        return _c(t.base, d, ctx, cons)
    if isinstance(t, Prim):
        return _prim(t, d, ctx, cons)
    if isinstance(t, AnyT):
        c = json_class(d)
        if c is not None and cons:
            if c is bool:
                pass
            else:
                msgs = check_cons(cons, d, c, ctx)
                if msgs:
                    raise Rejected(E(msgs))
        return d
    if isinstance(t, (Lit, EnumT)):
        pairs = [(v, v) for v in t.values] if isinstance(t, Lit) else [(v, VEnum(t.name, n)) for n, v in t.members]
        out = _lit(pairs, d, ctx)
        # constraints given to a literal / enum position bear on the JSON value of the literal obtained (the datum itself
        # in strict mode; what the documented table made of it under coercion), by its own JSON class
        jv = out
        if isinstance(out, VEnum):
            jv = dict((n, v) for n, v in t.members)[out.member]
        dcls = json_class(jv)
        msgs = check_cons(cons, jv, dcls, ctx) if cons and dcls in (int, float, str) else []
        if msgs:
            raise Rejected(E(msgs))
        return out
    if isinstance(t, Uni):
        return _union(t, d, ctx, cons)
    if isinstance(t, Coll):
        return _coll(t, d, ctx, cons)
    if isinstance(t, Tup):
        return _tuple(t, d, ctx, cons)
    if isinstance(t, MapT):
        return _map(t, d, ctx, cons)
    if isinstance(t, Obj):
        return _obj(t, d, ctx, cons)
    if isinstance(t, Gen):
        sub = dict(ctx.tvars)
        sub.update(zip(t.obj.generic_params, t.args))
        ctx2 = Ctx(**{**ctx.__dict__, "tvars": sub})
        return _obj(t.obj, d, ctx2, cons)
    raise Unspecified(f"no model for {t}")


BOOL_WORDS = {"0": False, "1": True, "f": False, "t": True, "n": False, "y": True, "no": False, "yes": True, "false": False,
              "true": True, "off": False, "on": True, "ko": False, "ok": True}
PRIM_CLASS = {"none": type(None), "bool": bool, "int": int, "float": float, "str": str}


def table_coerce(kind: str, d):
    """the documented coercion table; returns the coerced datum, or d unchanged when the table has
    no entry (the strict check then decides)"""
    td = type(d)
    if td not in (str, int, float, bool, type(None)):
        return d
    if kind == "none":
        return None if (td is str and d == "") else d
    if kind == "bool":
        if td is str and d.lower() in BOOL_WORDS:
            return BOOL_WORDS[d.lower()]
        if td is int:
            return bool(d)
        return d
    if kind == "int":
        if td is str:
            try:
                return int(d)
            except ValueError:
                return d
        if td is float:
            if d != d or d in (float("inf"), float("-inf")):
                return d
            return int(d)
        return d
    if kind == "float":
        if td is str:
            try:
                return float(d)
            except ValueError:
                return d
        if td is int:
            if abs(d) > BIG:
                raise Unspecified("huge int to float")
            return float(d)
        return d
    if kind == "str":
        if td in (int, float):
            return str(d)
        return d
    return d


def _prim(t: Prim, d, ctx, cons):
    k = t.kind
    if ctx.coerce and k in PRIM_CLASS:
        if ctx.custom_coercer is not None:
            d = ctx.custom_coercer(PRIM_CLASS[k], d)
        else:
            d = table_coerce(k, d)
    dc = type(d)
    if k == "none":
        if d is None:
            return None
        raise Rejected(bad_type("null", d))
    if k == "bool":
        if dc is bool:
            return d
        raise Rejected(bad_type("boolean", d))
    if k == "str":
        if dc is str:
            msgs = check_cons(cons, d, str, ctx)
            if msgs:
                raise Rejected(E(msgs))
            return d
        if isinstance(d, str):
            raise Unspecified("str subclass")
        raise Rejected(bad_type("string", d))
    if k == "int":
        if dc is int:
            msgs = check_cons(cons, d, int, ctx)
            if msgs:
                raise Rejected(E(msgs))
            return d
        if isinstance(d, int) and dc is not bool:
            raise Unspecified("int subclass")
        raise Rejected(bad_type("integer", d))
    if k == "float":
        if dc is float:
            msgs = check_cons(cons, d, float, ctx)
            if msgs:
                raise Rejected(E(msgs))
            return d
        if dc is int:
            if abs(d) > BIG:
                raise Unspecified("integer beyond 2**53 for float")
            msgs = check_cons(cons, d, float, ctx)
            if msgs:
                raise Rejected(E(msgs))
            return float(d)
        if isinstance(d, (int, float)) and dc is not bool:
            raise Unspecified("number subclass")
        raise Rejected(bad_type("number", d))
    raise Unspecified(k)


def _lit(pairs, d, ctx):
    dc = json_class(d)
    if dc is None:
        raise Unspecified("non-JSON datum for literal")
    for v, out in pairs:
        if type(v) is dc and v == d:
            return out
    if ctx.coerce and dc not in (list, dict):
        kinds = {type(v): {int: "int", float: "float", str: "str", bool: "bool", type(None): "none"}[type(v)] for v, _ in pairs}
        hits = []
        for cls, kind in kinds.items():
            c = ctx.custom_coercer(cls, d) if ctx.custom_coercer is not None else table_coerce(kind, d)
            for v, out in pairs:
                if type(v) is type(c) and type(v) is cls and v == c:
                    hits.append(out)
        if hits:
            # the classes of the literal values are tried in the order of the values, as the alternatives of a union are
            return hits[0]
    if dc in (list, dict):
        # one or more messages, text not documented
        raise Rejected(E([WILD]))
    raise Rejected(E([ctx.msg("one_of", [v for v, _ in pairs], d)]))


def _union(t: Uni, d, ctx, cons):
    err = E()
    first = None
    found = False
    others = []
    for a in flat_alts(t, ctx):
        ra = resolve(a, ctx)
        if (isinstance(ra, Prim) and ra.kind == "undefined") or isinstance(ra, Unsup):
            continue
        try:
            v = _c(a, d, ctx, cons)
        except Rejected as r:
            if not found:
                err.add(r.e)
            continue
        if not found:
            found, first = True, v
        else:
            others.append(v)
    if found:
        if others:
            return VAlts(first, others)
        return first
    raise Rejected(err)


def _co(ctx, cls, d):
    if ctx.coerce and ctx.custom_coercer is not None:
        return ctx.custom_coercer(cls, d)
    return d


def _coll(t: Coll, d, ctx, cons):
    d = _co(ctx, list, d)
    if type(d) is not list:
        if isinstance(d, list):
            raise Unspecified("list subclass")
        raise Rejected(bad_type("array", d))
    children = {}
    vals = []
    for i, x in enumerate(d):
        try:
            vals.append(_c(t.elt, x, ctx, {}))
        except Rejected as r:
            children[i] = r.e
    msgs = check_cons(cons, d, list, ctx)
    if msgs or children:
        raise Rejected(E(msgs, children))
    if t.kind in ("set", "absset", "bset", "mutset"):
        return _mkset(set, vals)
    if t.kind == "frozenset":
        return _mkset(frozenset, vals)
    if t.kind == "vartuple":
        return tuple(vals)
    return vals


def _mkset(cls, vals):
    try:
        return cls(_hashable(v) for v in vals)
    except TypeError:
        raise Unspecified("unhashable element in set")


def _hashable(v):
    if isinstance(v, VAlts):
        return _hashable(v.first)
    hash(v)
    return v


def _tuple(t: Tup, d, ctx, cons):
    d = _co(ctx, list, d)
    if type(d) is not list:
        if isinstance(d, list):
            raise Unspecified("list subclass")
        raise Rejected(bad_type("array", d))
    n = len(t.elts)
    if len(d) < n:
        raise Rejected(E([ctx.msg("min_items", n, d)]))
    if len(d) > n:
        raise Rejected(E([ctx.msg("max_items", n, d)]))
    children, vals = {}, []
    for i, (et, x) in enumerate(zip(t.elts, d)):
        try:
            vals.append(_c(et, x, ctx, {}))
        except Rejected as r:
            children[i] = r.e
    msgs = check_cons(cons, d, list, ctx)
    if msgs or children:
        raise Rejected(E(msgs, children))
    return tuple(vals)


def _map(t: MapT, d, ctx, cons):
    d = _co(ctx, dict, d)
    if type(d) is not dict:
        if isinstance(d, dict):
            raise Unspecified("dict subclass")
        raise Rejected(bad_type("object", d))
    children, out = {}, {}
    for k, x in d.items():
        e = E()
        kv = vv = None
        try:
            kv = _c(t.k, k, ctx, {})
        except Rejected as r:
            e.add(r.e)
        # key and value are two rules of the same item: both are reported at the item's location
        # (key messages first), an invalid key does not hide the errors of the value
        try:
            vv = _c(t.v, x, ctx, {})
        except Rejected as r:
            e.add(r.e)
        if e:
            children[k] = e
        else:
            try:
                out[_hashable(kv)] = vv
            except TypeError:
                raise Unspecified("unhashable key")
    msgs = check_cons(cons, d, dict, ctx)
    if msgs or children:
        raise Rejected(E(msgs, children))
    return out


def _obj(o: Obj, d, ctx: Ctx, cons):
    d = _co(ctx, dict, d)
    if type(d) is not dict:
        if isinstance(d, dict):
            raise Unspecified("dict subclass")
        raise Rejected(bad_type("object", d))
    for k in d:
        if type(k) is not str:
            raise Unspecified("non-string key in object datum")
    ocons = merge_cons(cons, dict(o.cons))
    err = E(check_cons(ocons, d, dict, ctx))
    fields = deser_fields(o, ctx)
    values: Dict[str, Any] = {}
    present = set()
    remain = set(d.keys())
    ext = {f.name: field_ext_name(o, f, ctx) for f in fields if not f.flatten and f.props is None}
    requiring: Dict[str, List[str]] = {}
    for k, reqs in o.dep_req:
        for r in reqs:
            requiring.setdefault(r, []).append(ext[k])

    def fbod(f: F) -> bool:
        return (f.fbod or ctx.fall_back_on_default) and f.optional

    def field_type(f: F) -> T:
        return strip_none(f.type) if f.none_as_undefined else f.type

    all_ext = set(ext.values())
    for f in fields:
        if f.flatten or f.props is not None:
            continue
        a = ext[f.name]
        remain.discard(a)
        if a in d:
            try:
                values[f.name] = _c(field_type(f), d[a], ctx, dict(f.cons))
                present.add(f.name)
            except Rejected as r:
                if fbod(f):
                    pass
                else:
                    err.add(E([], {a: r.e}))
        elif not f.optional:
            err.add(E([], {a: E([ctx.msg("missing_property")])}))
        elif f.name in requiring and any(x in d for x in requiring[f.name]):
            req = sorted(x for x in set(requiring[f.name]) if x in d)
            err.add(E([], {a: E([ctx.msg("missing_property") + f" (required by {req})"])}))
    for f in fields:
        if not f.flatten:
            continue
        aliases = {ctx.alias(a) for a in flattened_aliases(f.type, ctx)}
        sub = {k: d[k] for k in d if k in aliases}
        remain -= set(sub)
        try:
            values[f.name] = _c(field_type(f), sub, ctx, dict(f.cons))
            present.add(f.name)
        except Rejected as r:
            if not fbod(f):
                err.add(r.e)
    for f in fields:
        if f.props is None or f.props == "":
            continue
        matched = {k: d[k] for k in d if k in remain and re.match(f.props, k)}
        remain -= set(matched)
        try:
            values[f.name] = _c(field_type(f), matched, ctx, dict(f.cons))
            present.add(f.name)
        except Rejected as r:
            if not fbod(f):
                err.add(r.e)
    addf = [f for f in fields if f.props == ""]
    if addf:
        f = addf[0]
        rest = {k: d[k] for k in d if k in remain}
        remain = set()
        try:
            values[f.name] = _c(field_type(f), rest, ctx, dict(f.cons))
            present.add(f.name)
        except Rejected as r:
            if not fbod(f):
                err.add(r.e)
    extra: Dict[str, Any] = {}
    if remain:
        if not ctx.additional_properties:
            for k in remain:
                err.add(E([], {k: E([ctx.msg("unexpected_property")])}))
        elif o.kind == "typeddict":
            for k in d:
                if k in remain:
                    extra[k] = d[k]
    if err:
        raise Rejected(err)
    if o.kind == "typeddict":
        out = dict(values)
        out.update(extra)
        return out
    full = {}
    for f in all_fields(o, ctx):
        if f.name in values:
            full[f.name] = values[f.name]
        elif f.initvar:
            continue
        elif f.has_any_default():
            full[f.name] = default_of(f)
        elif not f.init:
            full[f.name] = MISSING
    for target, source in o.post_assign:
        full[target] = values[source] if source in values else MISSING

    def effects(ob):
        for b in ob.bases:
            if b in ctx.env:
                yield from effects(ctx.env[b])
        yield from ob.post_effects

    ctor = None
    for target, fn in effects(o):
        if ctor is None:
            ctor = dict(full)
        full[target] = fn(full)
    # InitVar fields are consumed by __post_init__, not stored
    for f in all_fields(o, ctx):
        if f.initvar:
            full.pop(f.name, None)
    return VObj(o.name, o.kind, full, present, {f.name for f in all_fields(o, ctx) if not f.init}, ctor)


class _Missing:
    def __repr__(self):
        return "MISSING"

    def __deepcopy__(self, memo):
        return self

    def __copy__(self):
        return self


MISSING = _Missing()
