"""C01 — deserialization accepts exactly conforming data and builds the typed value.
E1: every type of G(b) x every datum at <=k deviations x option vectors, against the reference
model (vf.refmodel.deser)."""
from __future__ import annotations

import json
import time
from typing import Any

from .. import infra
from ..data import enumerate_data
from ..grammar import gen_types, well_formed
from ..refmodel.deser import UNSPEC, Ctx, conform
from ..tast import Coll, Con, MapT, NewT, Obj, Gen, Prim, Tup, short, node_kind
from ..values import match
from . import deser_common as dc

import apischema
from apischema import ValidationError

PROP = "C01"
RULE = (
    "types: bounded grammar G (atoms; every unary ctor / object shape over every atom; all ordered pairs of atoms "
    "under Union; quick: every ordered (outer, inner) ctor/shape pair over 4 atom-class representatives, thorough: over all "
    "16 atoms); data: skeletons + every <=k-deviation mutant (universal atom pool at every position, array drop/dup/append, "
    "object key drop/add); options: additional_properties x fall_back_on_default x aliaser (full cross at level<=1, 4 "
    "pair-covering vectors at level 2) + per-call schema/validators at level<=1. A case is one (type, options, datum) "
    "execution of the real deserialize compared with the reference model; distinct_nontrivial counts distinct "
    "(ctor-pair shape, options, deviation count, datum JSON class at root, verdict) tuples."
)


def root_schema_for(spec, ctx):
    """a per-call schema= constraint suited to the root's JSON class"""
    t = dc.resolve(spec, ctx)
    while isinstance(t, (NewT, Con)):
        t = dc.resolve(t.base, ctx)
    if isinstance(t, Prim) and t.kind in ("int", "float"):
        return (("min", 1),)
    if isinstance(t, Prim) and t.kind == "str":
        return (("min_len", 1),)
    if isinstance(t, (Coll, Tup)):
        return (("max_items", 1),)
    if isinstance(t, (MapT, Obj, Gen)):
        return (("max_props", 1),)
    return None


def _v_pass(v):
    return None


def _v_fail(v):
    raise ValidationError("root validator failed")


def check_one(case: dc.Case, ctx: Ctx, method, d, dev: int, st: infra.Stats, optkey, spec=None, extra_fail=False):
    spec = spec if spec is not None else case.spec
    ref = conform(spec, d, ctx)
    if ref is UNSPEC:
        st.count("unspecified")
        return
    kind, out = dc.run_impl(method, d)
    verdict = "acc" if ref.ok else "rej"
    if extra_fail and ref.ok:
        verdict = "rej"
    st.case(dc.shape_of(case.label), optkey, dev, type(d).__name__, verdict)
    st.count("ref_accept" if verdict == "acc" else "ref_reject")
    base = {"label": case.label, "type": short(case.spec), "options": list(map(str, optkey)), "datum": repr(d)}
    if kind == "exc":
        loc = ()
        st.violation(
            dict(
                base,
                signature={"kind": "exception", "exc": type(out).__name__, "root": dc.shape_of(case.label).split("[")[0], "dclass": dc.dclass(d)},
                what=f"deserialize raised {type(out).__name__}: {str(out)[:100]}",
                source=case.realize().source,
            )
        )
        return
    if verdict == "acc":
        if kind == "err":
            errs = dc.impl_errors(out)
            loc = errs[0][0] if errs else ()
            st.violation(
                dict(
                    base,
                    signature={
                        "kind": "accept_mismatch",
                        "direction": "impl_rejects_ref_accepts",
                        "node": dc.node_at(spec, loc, ctx),
                        "dclass": dc.dclass(dc.get_loc(d, loc)),
                    },
                    what=f"deserialize rejects conforming data: {errs[:2]}",
                    observed=errs[:5],
                    source=case.realize().source,
                )
            )
            return
        r = match(ref.value, out, case.realize().module)
        if r is not None:
            st.violation(
                dict(
                    base,
                    signature={"kind": "value_mismatch", "shape": dc.shape_of(case.label)},
                    what=f"typed image differs: {r}",
                    expected=repr(ref.value),
                    observed=repr(out),
                    source=case.realize().source,
                )
            )
    else:
        if kind == "ok":
            if extra_fail and ref.ok:
                loc = ()
            else:
                fl = ref.e.flat()
                loc = fl[0][0] if fl else ()
            st.violation(
                dict(
                    base,
                    signature={
                        "kind": "accept_mismatch",
                        "direction": "impl_accepts_ref_rejects",
                        "node": dc.node_at(spec, loc, ctx) if not (extra_fail and ref.ok) else "root_validator",
                        "dclass": dc.dclass(dc.get_loc(d, loc)),
                    },
                    what=f"deserialize accepts non-conforming data (model: {([] if ref.ok else ref.e.flat()[:2])}) -> {out!r}"[:300],
                    observed=repr(out),
                    source=case.realize().source,
                )
            )


def run_type(i: int, label: str, spec, tier: str, st: infra.Stats):
    env_ctx = Ctx(env=dc.build_env(spec))
    wf = well_formed(spec, env_ctx)
    if wf:
        st.count("ill_formed:" + wf)
        return
    case = dc.Case(label, spec)
    lvl = dc.level_of(label)
    try:
        case.realize()
    except Exception as e:
        st.violation(
            {
                "label": label,
                "type": short(spec),
                "signature": {"kind": "realize_error", "exc": type(e).__name__},
                "what": f"class definition failed: {e!r}"[:300],
                "harness_error": True,
                "traceback": repr(e),
            }
        )
        return
    st.count("types")
    st.note("levels", f"level{lvl}")
    if i % 97 == 0:
        st.sample({"type": short(spec), "label": label})
    opts = dc.FULL_OPTS if lvl <= 1 else dc.PAIR_OPTS
    k = 2 if (lvl <= 1 or tier == "thorough") else 1
    if lvl == 2 and tier == "thorough":
        k = 2
    first = True
    for ap, fb, al in opts:
        ctx = case.ctx(ap, fb, al)
        try:
            method = case.method(ap, fb, al)
        except Exception as e:
            st.violation(
                {
                    "label": label,
                    "type": short(spec),
                    "signature": {"kind": "compile_error", "exc": type(e).__name__, "shape": dc.shape_of(label)},
                    "what": f"deserialization_method raised {e!r}"[:300],
                    "source": case.realize().source,
                }
            )
            break
        kk = k if first else 1
        wide = first or lvl <= 1
        for dev, d in enumerate_data(spec, ctx, k=kk, wide=wide):
            check_one(case, ctx, method, d, dev, st, (ap, fb, al))
        first = False
    if lvl <= 1:
        ctx = case.ctx()
        rs = root_schema_for(spec, ctx)
        if rs is not None:
            try:
                m = case.method(schema=apischema.schema(**dict(rs)))
                spec2 = Con(spec, rs)
                for dev, d in enumerate_data(spec, ctx, k=1, wide=False):
                    check_one(case, ctx, m, d, dev, st, ("schema", rs), spec=spec2)
            except Exception as e:
                st.violation(
                    {
                        "label": label,
                        "signature": {"kind": "compile_error", "exc": type(e).__name__, "shape": dc.shape_of(label), "opt": "schema"},
                        "what": f"deserialization_method(schema=) raised {e!r}"[:300],
                        "source": case.realize().source,
                    }
                )
        for vname, vf, fail in (("vpass", _v_pass, False), ("vfail", _v_fail, True)):
            m = case.method(validators=[vf])
            for dev, d in enumerate_data(spec, ctx, k=0 if fail else 1, wide=False):
                check_one(case, ctx, m, d, dev, st, ("validators", vname), extra_fail=fail)
    case.drop()
    dc.periodic_reset(i)


def work(tier, widx, nworkers, st, extra):
    for i, label, spec in dc.my_types(tier, widx, nworkers):
        run_type(i, label, spec, tier, st)


def main(tier: str, t0: float) -> int:
    st = infra.run_pool("vf.checks.c01", tier)
    return infra.finish(
        PROP,
        tier,
        st,
        t0,
        rule=RULE,
        coverage_extra={"exhaustive": True, "bounds": {"nesting": 2, "deviations": 2, "tier": tier}},
        assumptions=[
            "reference model vf/refmodel/deser.py encodes docs/data_model.md + de_serialization.md + validation.md",
            "cases the documentation does not decide are excluded and counted under counters.unspecified",
        ],
    )


def replay(path: str) -> int:
    v = json.load(open(path))
    label = v["label"]
    for lab, spec in gen_types("thorough"):
        if lab == label:
            break
    else:
        print("label not found", label)
        return 2
    st = infra.Stats()
    case = dc.Case(label, spec)
    opts = v.get("options", ["False", "False", "id"])
    ns = {"nan": float("nan"), "inf": float("inf")}
    d = eval(v["datum"], ns)
    if opts[0] in ("True", "False"):
        ap, fb, al = opts[0] == "True", opts[1] == "True", opts[2]
        check_one(case, case.ctx(ap, fb, al), case.method(ap, fb, al), d, 0, st, tuple(opts))
    else:
        print("replay of per-call option cases: re-run the check with --only", label)
    for x in st.violations:
        print("VIOLATION property=C01 replay=" + path)
        print(" ", x["what"])
    return 1 if st.violations else 0
