"""C17 — generated JSON Schemas are well-formed, closed and finite.
E1: types x {all_refs} x {ref_factory} x {5 versions} x {with_schema} x {deserialization,
serialization, definitions}; oracle = meta-schema validation (jsonschema), $ref closure walk and a
reference count model over the TypeSpec."""
from __future__ import annotations

import json
import signal
from typing import Any, Dict, List, Optional, Set, Tuple

from .. import infra
from ..grammar import gen_types, well_formed
from ..realize import PRELUDE, exec_source
from ..refmodel.deser import Ctx, all_fields, resolve
from ..tast import AnyT, Coll, Con, EnumT, Gen, Lit, MapT, NewT, Obj, Prim, Ref, T, Tup, TVar, Uni, Unsup, short, walk
from . import deser_common as dc

import apischema
from apischema.json_schema import JsonSchemaVersion, definitions_schema, deserialization_schema, serialization_schema

import jsonschema
from jsonschema import Draft7Validator, Draft201909Validator, Draft202012Validator

PROP = "C17"
RULE = (
    "every type of the grammar (with NewTypes, enums, generic specialisations, self / mutually recursive classes, sharing "
    "through containers, unions, flattened and properties fields) + source worlds for type_name overrides (string, "
    "factory, None), name clashes and nameless recursion x all_refs x ref_factory {default, prefix} x 5 versions x "
    "with_schema x {deserialization, serialization}: generation terminates (watchdog); the result validates against the "
    "meta-schema of the dialect it declares; every $ref resolves to a definition (inline $defs or definitions_schema); "
    "definitions = exactly the names the reference-count model predicts; no unreachable definition; "
    "definitions_schema == inline $defs; definitions_schema over every list of <=3 (thorough 4) entries of a menu of plain "
    "types and (type, dynamic conversion) pairs: union of the entries alone (all_refs), order-independent, no dangling ref. distinct_nontrivial counts distinct (ctor-pair shape, options, set of "
    "definition names) tuples."
)

VERSIONS = {
    "2020-12": JsonSchemaVersion.DRAFT_2020_12,
    "2019-09": JsonSchemaVersion.DRAFT_2019_09,
    "draft-07": JsonSchemaVersion.DRAFT_7,
    "oas3.0": JsonSchemaVersion.OPEN_API_3_0,
    "oas3.1": JsonSchemaVersion.OPEN_API_3_1,
}


def _prefix_factory(name: str) -> str:
    return "http://example.org/schemas/" + name


def declared_validator(schema: dict):
    """validator class for the dialect the schema declares (scheme and trailing # ignored)"""
    uri = schema.get("$schema")
    if uri is None:
        return None
    u = uri.replace("https://", "http://").rstrip("#")
    return {
        "http://json-schema.org/draft/2020-12/schema": Draft202012Validator,
        "http://json-schema.org/draft/2019-09/schema": Draft201909Validator,
        "http://json-schema.org/draft-07/schema": Draft7Validator,
    }.get(u, "unknown")


def collect_refs(x: Any, out: List[str]):
    if isinstance(x, dict):
        for k, v in x.items():
            if k == "$ref" and isinstance(v, str):
                out.append(v)
            elif k == "discriminator" and isinstance(v, dict):
                for r in (v.get("mapping") or {}).values():
                    out.append(r)
            else:
                collect_refs(v, out)
    elif isinstance(x, list):
        for v in x:
            collect_refs(v, out)


# ------------------------------------------------------------------------------- name model
def named(t: T) -> Optional[str]:
    if isinstance(t, (Obj, NewT, EnumT)):
        return t.name
    return None


def predict_refs(spec: T, ctx: Ctx, side: str) -> Dict[str, int]:
    """reference counts as documented: a named type is counted at each use; its content is
    explored at its first use only"""
    counts: Dict[str, int] = {}

    def fields_of(o: Obj) -> List:
        fs = []
        for f in all_fields(o, ctx):
            if side == "deser" and (not f.init or f.skip in ("all", "deser")):
                continue
            if side == "ser" and (f.initvar or f.skip in ("all", "ser")):
                continue
            fs.append(f)
        return fs

    def visit(t: T, tv: Dict[str, T]):
        if isinstance(t, Ref):
            t = ctx.env[t.name]
        if isinstance(t, TVar):
            t = tv.get(t.name, AnyT())
        n = named(t)
        if isinstance(t, Gen):
            n = None
        if isinstance(t, Obj) and t.generic_params:
            n = None  # unspecialised generic has no default name
        if n is not None:
            c = counts.get(n, 0)
            counts[n] = c + 1
            if c > 0:
                return
        if isinstance(t, (NewT, Con, Unsup)):
            if isinstance(t, Unsup):
                return
            visit(t.base, tv)
        elif isinstance(t, Uni):
            for a in t.alts:
                if isinstance(a, Unsup) or (isinstance(a, Prim) and a.kind == "undefined"):
                    continue
                visit(a, tv)
        elif isinstance(t, Coll):
            visit(t.elt, tv)
        elif isinstance(t, Tup):
            for a in t.elts:
                visit(a, tv)
        elif isinstance(t, MapT):
            visit(t.k, tv)
            visit(t.v, tv)
        elif isinstance(t, Gen):
            tv2 = dict(tv)
            tv2.update(zip(t.obj.generic_params, t.args))
            for f in fields_of(t.obj):
                visit(f.type, tv2)
            if side == "ser":
                for m in t.obj.methods:
                    visit(m.ret, tv2)
        elif isinstance(t, Obj):
            for f in fields_of(t):
                ft = f.type
                if f.none_as_undefined:
                    from ..refmodel.deser import strip_none

                    ft = strip_none(ft)
                visit(ft, tv)
            if side == "ser":
                for m in t.methods:
                    visit(m.ret, tv)

    visit(spec, {})
    return counts


class Timeout(Exception):
    pass


def _alarm(signum, frame):
    raise Timeout()


_IN_PLACE_LISTS = ("allOf", "anyOf", "oneOf")
_IN_PLACE_SINGLE = ("not", "if", "then", "else")


def in_place_refs(node: Any, out: Set[str]):
    """$ref targets applied to the *same* instance as `node` (through $ref / allOf / anyOf / oneOf / not /
    if-then-else only): following them consumes no instance depth"""
    if not isinstance(node, dict):
        return
    r = node.get("$ref")
    if isinstance(r, str):
        out.add(r)
    for k in _IN_PLACE_LISTS:
        for sub in node.get(k, ()) if isinstance(node.get(k), list) else ():
            in_place_refs(sub, out)
    for k in _IN_PLACE_SINGLE:
        in_place_refs(node.get(k), out)


def nonproductive_cycle(defs: Dict[str, Any], prefix: str) -> Optional[List[str]]:
    """a cycle of definitions that refer to each other in place: the schema is not finite (a validator
    unfolds it forever whatever the instance)"""
    graph: Dict[str, Set[str]] = {}
    for name, d in defs.items():
        out: Set[str] = set()
        in_place_refs(d, out)
        graph[name] = {r[len(prefix) :] for r in out if r.startswith(prefix) and r[len(prefix) :] in defs}
    color: Dict[str, int] = {}

    def dfs(n, path):
        color[n] = 1
        for m in sorted(graph.get(n, ())):
            if color.get(m) == 1:
                return path + [n, m]
            if color.get(m) is None:
                r = dfs(m, path + [n])
                if r:
                    return r
        color[n] = 2
        return None

    for n in sorted(graph):
        if color.get(n) is None:
            r = dfs(n, [])
            if r:
                return r
    return None


def check_schema_doc(schema: dict, vname: str, with_schema: bool, st, base, defs_external: Optional[dict], prefix: Optional[str]):
    """meta-schema validity + ref closure; returns the set of definition names used"""
    V = declared_validator(schema)
    if with_schema and vname in ("2020-12", "2019-09", "draft-07"):
        if V is None or V == "unknown":
            st.violation(dict(base, signature={"kind": "no_declared_dialect", "version": vname}, what=f"$schema missing or unknown: {schema.get('$schema')!r}"))
        else:
            try:
                V.check_schema(schema)
            except jsonschema.exceptions.SchemaError as e:
                st.violation(
                    dict(
                        base,
                        signature={"kind": "meta_schema_invalid", "version": vname, "declared": schema.get("$schema"), "path": [str(p) for p in list(e.absolute_path)[-1:]]},
                        what=f"schema invalid against the meta-schema it declares ({schema.get('$schema')}): {e.message[:150]} at {list(e.absolute_path)}"[:400],
                        schema=json.dumps(schema)[:1200],
                    )
                )
    elif vname == "oas3.1" or (not with_schema and vname == "2020-12"):
        try:
            Draft202012Validator.check_schema(schema)
        except jsonschema.exceptions.SchemaError as e:
            st.violation(dict(base, signature={"kind": "meta_schema_invalid", "version": vname, "declared": None, "path": [str(p) for p in list(e.absolute_path)[-1:]]}, what=f"schema invalid against 2020-12 meta-schema: {e.message[:150]}"[:300], schema=json.dumps(schema)[:1200]))
    refs: List[str] = []
    collect_refs(schema, refs)
    defs_key = "definitions" if vname == "draft-07" else "$defs"
    inline = schema.get(defs_key, {}) if isinstance(schema.get(defs_key, {}), dict) else {}
    used: Set[str] = set()
    for r in refs:
        if prefix is not None:
            if not r.startswith(prefix):
                st.violation(dict(base, signature={"kind": "ref_prefix", "version": vname}, what=f"$ref {r!r} does not use the reference prefix {prefix!r}"))
                continue
            name = r[len(prefix) :]
        else:
            name = r
        used.add(name)
        target = inline if defs_external is None else defs_external
        if name not in target:
            st.violation(dict(base, signature={"kind": "dangling_ref", "version": vname}, what=f"$ref {r!r} resolves to no definition (definitions: {sorted(target)})"[:300], schema=json.dumps(schema)[:1200]))
    target = inline if defs_external is None else defs_external
    if prefix is not None and isinstance(target, dict):
        cyc = nonproductive_cycle(target, prefix)
        if cyc:
            st.violation(dict(base, signature={"kind": "nonproductive_ref_cycle", "version": vname}, what=f"definitions refer to each other in place (no instance depth consumed): {' -> '.join(cyc)}"[:300], schema=json.dumps(schema)[:1200]))
    if defs_external is None:
        unreachable = set(inline) - used
        if unreachable:
            # not forbidden by the property (all_refs=True extracts every named type, e.g. the NewType
            # of a mapping key whose schema is inlined in patternProperties): informational only
            st.count("definitions_never_referenced(informational)")
    return used


def run_type(i, label, spec, tier, st):
    env = dc.build_env(spec)
    ctx0 = Ctx(env=env)
    if well_formed(spec, ctx0):
        return
    if "flat_nested" in label:
        st.count("nested_flatten_skipped(known finding of C06)")
        return
    lvl = dc.level_of(label)
    case = dc.Case(label, spec)
    try:
        rz = case.realize()
    except Exception as e:
        st.violation({"label": label, "signature": {"kind": "realize_error"}, "what": repr(e)[:300], "harness_error": True, "traceback": repr(e)})
        return
    st.count("types")
    if i % 101 == 0:
        st.sample({"type": short(spec), "label": label})
    sides = (("deser", deserialization_schema, "deserialization"), ("ser", serialization_schema, "serialization"))
    versions = list(VERSIONS) if lvl <= 1 else (["2020-12", "draft-07", "oas3.0"] if tier == "quick" else list(VERSIONS))
    for side, fn, defkey in sides:
        pred = predict_refs(spec, ctx0, side)
        for all_refs in (False, True):
            expected_names = {n for n, c in pred.items() if all_refs or c > 1}
            for vname in versions:
                version = VERSIONS[vname]
                for rf in (None, _prefix_factory):
                    if rf is not None and lvl > 1 and tier == "quick" and vname != "2020-12":
                        continue
                    for with_schema in ((True, False) if (lvl <= 1 and rf is None) else (True,)):
                        base = {"label": label, "type": short(spec), "options": [side, all_refs, vname, "prefix" if rf else "default", with_schema], "source": rz.source}
                        try:
                            schema = fn(rz.tp, all_refs=all_refs, version=version, ref_factory=rf, with_schema=with_schema)
                            schema = json.loads(json.dumps(schema))
                        except Timeout:
                            raise
                        except Exception as e:
                            st.violation(dict(base, signature={"kind": "generation_exception", "exc": type(e).__name__, "side": side}, what=f"{fn.__name__} raised {e!r}"[:300]))
                            continue
                        external = None
                        prefix = None
                        if rf is not None:
                            prefix = "http://example.org/schemas/"
                        elif vname in ("oas3.0", "oas3.1"):
                            prefix = "#/components/schemas/"
                        elif vname == "draft-07":
                            prefix = "#/definitions/"
                        else:
                            prefix = "#/$defs/"
                        if rf is not None or vname in ("oas3.0", "oas3.1"):
                            try:
                                external = json.loads(json.dumps(definitions_schema(**{defkey: [rz.tp]}, all_refs=all_refs, version=version, ref_factory=rf)))
                            except Exception as e:
                                st.violation(dict(base, signature={"kind": "definitions_exception", "exc": type(e).__name__}, what=f"definitions_schema raised {e!r}"[:300]))
                                continue
                        used = check_schema_doc(schema, vname, with_schema, st, base, external, prefix)
                        defs_key = "definitions" if vname == "draft-07" else "$defs"
                        names = set(schema.get(defs_key, {})) if external is None else set(external)
                        st.case(dc.shape_of(label), (side, all_refs, vname, bool(rf)), tuple(sorted(names)))
                        # the root type itself is never a $ref at top level: if it is counted once it is inline
                        exp = set(expected_names)
                        root_name = named(resolve(spec, ctx0))
                        if root_name in exp and pred.get(root_name, 0) <= 1 and all_refs:
                            exp_alt = exp - {root_name}
                        else:
                            exp_alt = exp
                        if names != exp and names != exp_alt:
                            st.violation(
                                dict(
                                    base,
                                    signature={"kind": "definitions_differ_from_model", "all_refs": all_refs, "side": side, "extra": bool(names - exp), "missing": bool(exp - names)},
                                    what=f"definitions {sorted(names)} but the reference count model predicts {sorted(exp)} (counts {pred})"[:400],
                                    schema=json.dumps(schema)[:1200],
                                )
                            )
                        if external is None and rf is None and vname == "2020-12" and with_schema:
                            try:
                                ds = json.loads(json.dumps(definitions_schema(**{defkey: [rz.tp]}, all_refs=all_refs, version=version)))
                                if ds != schema.get("$defs", {}):
                                    # definitions_schema also extracts the root type when it is named
                                    extra = set(ds) - set(schema.get("$defs", {}))
                                    same_common = all(ds[k] == v for k, v in schema.get("$defs", {}).items() if k in ds)
                                    if not (same_common and extra <= {root_name} and set(schema.get("$defs", {})) <= set(ds)):
                                        st.violation(dict(base, signature={"kind": "definitions_schema_differs", "side": side}, what=f"definitions_schema = {sorted(ds)} differs from inline $defs {sorted(schema.get('$defs', {}))}"[:300]))
                            except Exception as e:
                                st.violation(dict(base, signature={"kind": "definitions_exception", "exc": type(e).__name__}, what=f"definitions_schema raised {e!r}"[:300]))
    # definitions shared by both sides: definitions_schema(deserialization=[T], serialization=[T]) must give,
    # for every name whose two definitions are equal, that very definition (in the requested version)
    for all_refs in (False, True):
        for vname in versions:
            if lvl > 1 and tier == "quick" and not (all_refs and vname == "oas3.0"):
                continue  # quick: the full (all_refs x version) cross only up to nesting level 1
            version = VERSIONS[vname]
            base = {"label": label, "type": short(spec), "options": ["both", all_refs, vname], "source": rz.source}
            try:
                dd = json.loads(json.dumps(definitions_schema(deserialization=[rz.tp], all_refs=all_refs, version=version)))
                ds = json.loads(json.dumps(definitions_schema(serialization=[rz.tp], all_refs=all_refs, version=version)))
            except Exception:
                continue  # reported above
            try:
                both = json.loads(json.dumps(definitions_schema(deserialization=[rz.tp], serialization=[rz.tp], all_refs=all_refs, version=version)))
            except TypeError as e:
                if "different schemas" in str(e) and any(dd.get(k) != ds.get(k) for k in set(dd) & set(ds)):
                    st.count("both_sides_refused(different schemas)")
                    continue
                st.violation(dict(base, signature={"kind": "definitions_both_exception", "exc": "TypeError"}, what=f"definitions_schema(both) raised {e!r}"[:300]))
                continue
            except Exception as e:
                st.violation(dict(base, signature={"kind": "definitions_both_exception", "exc": type(e).__name__}, what=f"definitions_schema(both) raised {e!r}"[:300]))
                continue
            st.case(dc.shape_of(label), ("both", all_refs, vname), tuple(sorted(both)))
            if set(both) != set(dd) | set(ds):
                st.violation(dict(base, signature={"kind": "definitions_both_names", "version": vname}, what=f"definitions_schema(both) names {sorted(both)} != union of {sorted(dd)} and {sorted(ds)}"[:300]))
                continue
            for k in both:
                one = dd.get(k, ds.get(k))
                if (k not in dd or k not in ds or dd[k] == ds[k]) and both[k] != one:
                    st.violation(dict(base, signature={"kind": "definitions_both_differs", "version": vname}, what=f"definition {k!r} of definitions_schema(deserialization+serialization) = {json.dumps(both[k])[:150]} differs from the one-sided definition {json.dumps(one)[:150]}"[:400]))
                    break
                if k in dd and k in ds and dd[k] != ds[k] and isinstance(both[k].get("properties"), dict):
                    # properties present on one side only are copied with readOnly / writeOnly, in the same dialect
                    pd, ps = dd[k].get("properties", {}), ds[k].get("properties", {})
                    bad = None

                    def iso(x):
                        # draft-07 / OpenAPI 3.0 ignore the siblings of $ref: once readOnly / writeOnly is added, the
                        # conversion rightly isolates the reference in allOf
                        if isinstance(x, dict) and "$ref" in x and len(x) > 1 and vname in ("draft-07", "oas3.0"):
                            y = {a: b for a, b in x.items() if a != "$ref"}
                            y["allOf"] = [{"$ref": x["$ref"]}] + list(y.get("allOf", []))
                            return y
                        return x

                    for pn, pv in both[k]["properties"].items():
                        if pn in pd and pn in ps:
                            if pd[pn] == ps[pn] and pv != pd[pn]:
                                bad = (pn, pv, pd[pn])
                        elif pn in ps:
                            if iso(pv) != iso(dict(ps[pn], readOnly=True)):
                                bad = (pn, pv, dict(ps[pn], readOnly=True))
                        elif pn in pd:
                            if iso(pv) != iso(dict(pd[pn], writeOnly=True)):
                                bad = (pn, pv, dict(pd[pn], writeOnly=True))
                        else:
                            bad = (pn, pv, None)
                        if bad:
                            break
                    if bad:
                        st.violation(dict(base, signature={"kind": "definitions_both_property", "version": vname, "one_sided": bad[0] not in pd or bad[0] not in ps}, what=f"definition {k!r} of definitions_schema(both): property {bad[0]!r} = {json.dumps(bad[1])[:150]}, expected {json.dumps(bad[2])[:150]} (the one-sided schema of {vname} plus readOnly / writeOnly)"[:400]))
                        break
    case.drop()
    dc.periodic_reset(i)


WORLD_SRC = '''
from apischema.json_schema import deserialization_schema, serialization_schema, definitions_schema
@type_name("Renamed")
@dataclass
class A:
    x: int = 0
@dataclass
class HoldsA:
    a1: A
    a2: List[A]
TV = TypeVar("TV")
@type_name(lambda tp, arg: f"Box_{arg.__name__}")
@dataclass
class Box(Generic[TV]):
    v: TV
@dataclass
class HoldsBox:
    b1: Box[int]
    b2: Box[int]
    b3: Box[str]
@type_name(None)
@dataclass
class Anon:
    y: int = 0
@dataclass
class HoldsAnon:
    a1: Anon
    a2: Anon
@type_name("Same")
@dataclass
class S1:
    x: int = 0
@type_name("Same")
@dataclass
class S2:
    y: int = 0
@dataclass
class Clash:
    s1: S1
    s2: S2
@type_name(None)
@dataclass
class NamelessRec:
    nxt: Optional["NamelessRec"] = None
@dataclass
class Rec:
    nxt: Optional["Rec"] = None
    kids: List["Rec"] = field(default_factory=list)
NT = NewType("NT", int)
schema(min=0)(NT)
@dataclass
class HoldsNT:
    n1: NT
    n2: NT
Named = Annotated[List[int], type_name("IntList")]
@dataclass
class HoldsNamed:
    l1: Named
    l2: Named
@discriminator("kind")
class Pet:
    pass
@dataclass
class Cat(Pet):
    n: int = 0
@dataclass
class Dog(Pet):
    n: int = 1
@dataclass
class Owner:
    pets: List[Pet] = field(default_factory=list)
    best: Optional[Cat] = None
DiscAnn = Annotated[Union[A, Anon2], discriminator("type")] if False else None
# annotated discriminated unions, both spellings: their members are always extracted (the discriminator mapping points at them)
@dataclass
class ACat:
    x: int = 0
@dataclass
class ADog:
    y: int = 0
@dataclass
class BCat:
    x: int = 0
@dataclass
class BDog:
    y: int = 0
AnnUnion = Annotated[Union[ACat, ADog], discriminator("type", {"cat": ACat, "dog": ADog})]
AnnUnion604 = Annotated[BCat | BDog, discriminator("type", {"cat": BCat, "dog": BDog})]
@dataclass
class RecProps:
    a: int = 0
    rest: Mapping[str, "RecProps"] = field(default_factory=dict, metadata=properties)
@dataclass
class RecPattern:
    a: int = 0
    pat: Mapping[str, List["RecPattern"]] = field(default_factory=dict, metadata=properties(pattern="^p"))
class Opaque:
    pass
@dataclass
class Bad:
    x: Opaque
@dataclass
class HoldsBadUnion:
    u: Union[Bad, int] = 0
    l: List[Union[int, Bad]] = field(default_factory=list)
@discriminator("kind")
@dataclass
class PetD:
    name: str = ""
@dataclass
class CatD(PetD):
    lives: int = 9
@dataclass
class DogD(PetD):
    bark: bool = True
@dataclass
class OwnerD:
    pet: Optional[CatD] = None
@dataclass
class SerRec:
    x: int = 0
    @serialized
    def kids(self) -> List["SerRec"]:
        return []
@dataclass
class SerRecOpt:
    x: int = 0
    @serialized
    def nxt(self) -> Optional["SerRecOpt"]:
        return None
@dataclass
class SerTwice:
    a: A
    @serialized
    def other(self) -> A:
        return self.a
@dataclass
class RecBadAfter:
    nxt: Optional["RecBadAfter"]
    bad: Opaque
@dataclass
class RecBadBefore:
    bad: Opaque
    nxt: Optional["RecBadBefore"]
@dataclass
class HoldsRecBad:
    u: Union[str, RecBadAfter] = ""
    v: Union[RecBadBefore, int] = 0
# the same ignored alternative (not a data type) met n times in one graph, next to a recursive named type: ignoring it
# leaves nothing behind, however often it happens
import dataclasses as _dcs
ManyBad = {n: _dcs.make_dataclass(f"ManyBad{n}", [("root", Rec)] + [(f"h{i}", Optional[Opaque], field(default=None)) for i in range(n)]) for n in (1, 3, 4, 5, 8)}
ManyBadList = {n: _dcs.make_dataclass(f"ManyBadList{n}", [(f"h{i}", Union[int, List[Opaque]], field(default=0)) for i in range(n)]) for n in (4, 6)}
ManyBadNested4 = _dcs.make_dataclass("ManyBadNested4", [(f"h{i}", Union[int, HoldsRecBad], field(default=0)) for i in range(4)])
# a child of a discriminated class met before its parent, and a child referring back to the parent
@dataclass
class ChildFirst:
    c: CatD
    p: PetD
@dataclass
class ParentFirst:
    p: PetD
    c: CatD
@discriminator("kind")
@dataclass
class RPet:
    t: int = 0
@dataclass
class RCat(RPet):
    a: int = 0
@dataclass
class RDog(RPet):
    friend: Optional[RPet] = None
@type_name("SameAB")
@dataclass
class SameA:
    x: int = 0
@type_name("SameAB")
@dataclass
class SameB:
    y: str = ""
# serialized methods with their own conversion: the references are those of the conversion target
@dataclass
class SPoint:
    x: int = 0
@dataclass
class SPointView:
    s: str = ""
def spoint_view(p: SPoint) -> SPointView:
    return SPointView(str(p.x))
@dataclass
class Segment:
    n: int = 0
    @serialized(conversion=spoint_view)
    def start(self) -> SPoint:
        return SPoint(0)
    @serialized(conversion=spoint_view)
    def end(self) -> SPoint:
        return SPoint(1)
class RawNode:
    pass
@dataclass
class NodeView:
    kids: List["NodeView"] = field(default_factory=list)
def raw_view(r: RawNode) -> NodeView:
    return NodeView()
@dataclass
class Document:
    @serialized(conversion=raw_view)
    def root(self) -> RawNode:
        return RawNode()
# one named type reached through equivalent spellings of a builtin / abstract container
NamedD1 = Annotated[Dict[str, int], type_name("StrIntMap")]
NamedD2 = Annotated[dict[str, int], type_name("StrIntMap")]
@dataclass
class HoldsSpellings:
    d1: NamedD1
    d2: NamedD2
@type_name(lambda tp, arg: "IntPage")
@dataclass
class Page(Generic[TV]):
    items: TV
@dataclass
class HoldsPages:
    p1: Page[List[int]]
    p2: Page[list[int]]
    p3: List[Page[Sequence[int]]]
EXPECT = {
    "ChildFirst": (ChildFirst, {"PetD", "CatD", "DogD"}, {"ChildFirst", "PetD", "CatD", "DogD"}),
    "ParentFirst": (ParentFirst, {"PetD", "CatD", "DogD"}, {"ParentFirst", "PetD", "CatD", "DogD"}),
    "RDog": (RDog, {"RPet", "RCat", "RDog"}, {"RPet", "RCat", "RDog"}),
    "RPet": (RPet, {"RPet", "RCat", "RDog"}, {"RPet", "RCat", "RDog"}),
    "Segment": (Segment, {"SPointView"}, {"Segment", "SPointView"}, "ser"),
    "Document": (Document, {"NodeView"}, {"Document", "NodeView"}, "ser"),
    "HoldsSpellings": (HoldsSpellings, {"StrIntMap"}, {"HoldsSpellings", "StrIntMap"}),
    "HoldsPages": (HoldsPages, {"IntPage"}, {"HoldsPages", "IntPage"}),
    "PetD": (PetD, {"PetD", "CatD", "DogD"}, {"PetD", "CatD", "DogD"}),
    "CatD": (CatD, {"PetD"}, {"PetD", "CatD"}),
    "OwnerD": (OwnerD, {"PetD"}, {"OwnerD", "PetD", "CatD"}),
    "ListPetD": (List[PetD], {"PetD", "CatD", "DogD"}, {"PetD", "CatD", "DogD"}),
    "SerRec": (SerRec, {"SerRec"}, {"SerRec"}, "ser"),
    "SerRecOpt": (SerRecOpt, {"SerRecOpt"}, {"SerRecOpt"}, "ser"),
    "SerTwice": (SerTwice, {"Renamed"}, {"SerTwice", "Renamed"}, "ser"),
    "RecBadAfter": (Union[str, RecBadAfter], set(), set()),
    "RecBadBefore": (Union[str, RecBadBefore], set(), set()),
    "HoldsRecBad": (HoldsRecBad, set(), {"HoldsRecBad"}),
    **{f"ManyBad{n}": (c, {"Rec"}, {f"ManyBad{n}", "Rec"}) for n, c in ManyBad.items()},
    **{f"ManyBadList{n}": (c, set(), {f"ManyBadList{n}"}) for n, c in ManyBadList.items()},
    "ManyBadNested4": (ManyBadNested4, {"HoldsRecBad"}, {"ManyBadNested4", "HoldsRecBad"}),  # met four times: a definition
    "AnnUnion": (AnnUnion, {"ACat", "ADog"}, {"ACat", "ADog"}),
    "AnnUnion604": (AnnUnion604, {"BCat", "BDog"}, {"BCat", "BDog"}),
    "Pet": (Pet, {"Pet", "Cat", "Dog"}, {"Pet", "Cat", "Dog"}),
    "Cat": (Cat, {"Pet"}, {"Pet", "Cat"}),
    "CatOrDog": (Union[Cat, Dog], {"Pet", "Cat", "Dog"}, {"Pet", "Cat", "Dog"}),
    "ListPet": (List[Pet], {"Pet", "Cat", "Dog"}, {"Pet", "Cat", "Dog"}),
    "Owner": (Owner, {"Pet", "Cat", "Dog"}, {"Owner", "Pet", "Cat", "Dog"}),
    "RecProps": (RecProps, {"RecProps"}, {"RecProps"}),
    "RecPattern": (RecPattern, {"RecPattern"}, {"RecPattern"}),
    "BadUnion": (Union[Bad, int], set(), set()),
    "HoldsBadUnion": (HoldsBadUnion, set(), {"HoldsBadUnion"}),
    "HoldsA": (HoldsA, {"Renamed"}, {"HoldsA", "Renamed"}),
    "HoldsBox": (HoldsBox, {"Box_int"}, {"HoldsBox", "Box_int", "Box_str"}),
    "HoldsAnon": (HoldsAnon, set(), {"HoldsAnon"}),
    "Rec": (Rec, {"Rec"}, {"Rec"}),
    "HoldsNT": (HoldsNT, {"NT"}, {"HoldsNT", "NT"}),
    "HoldsNamed": (HoldsNamed, {"IntList"}, {"HoldsNamed", "IntList"}),
}
REFUSED = {"Clash": (Clash, ValueError), "NamelessRec": (NamelessRec, TypeError)}
REFUSED_BOTH = {"SameAB": (SameA, SameB, ValueError)}
'''


SELFCONV_SRC = '''
def _split(s: str) -> List[str]: return s.split(",")
def _flatten(ll: List[List[int]]) -> List[int]: return [x for l in ll for x in l]
@dataclass
class SelfConv:
    s: str = field(default="", metadata=conversion(serialization=_split))
    o: Optional[str] = field(default=None, metadata=conversion(serialization=_split))
    l: List[int] = field(default_factory=list, metadata=conversion(deserialization=_flatten))
'''


def run_self_containing_conversions(st: infra.Stats):
    """a conversion whose other side contains the converted type itself (str -> List[str], List[List[int]] -> List[int]):
    nothing recursive, the schema is the one of the other side at every entry point and version"""
    mod = exec_source(PRELUDE + SELFCONV_SRC)
    arr_s = {"type": "array", "items": {"type": "string"}}
    for vname, version in VERSIONS.items():
        for all_refs in (False, True):
            base = {"label": "world:SelfConv", "options": [vname, all_refs]}
            st.case("world", "SelfConv", vname, all_refs)
            try:
                ss = json.loads(json.dumps(serialization_schema(mod.SelfConv, version=version, all_refs=all_refs)))
                ds = json.loads(json.dumps(deserialization_schema(mod.SelfConv, version=version, all_refs=all_refs)))
                xs = json.loads(json.dumps(definitions_schema(serialization=[mod.SelfConv], version=version, all_refs=all_refs)))
                xd = json.loads(json.dumps(definitions_schema(deserialization=[mod.SelfConv], version=version, all_refs=all_refs)))
                # (OpenAPI: the definitions live outside the document)
                ss.setdefault("$defs", {}).update(xs)
                ds.setdefault("$defs", {}).update(xd)
            except Exception as e:
                st.violation(dict(base, signature={"kind": "generation_exception", "exc": type(e).__name__, "world": "SelfConv"}, what=f"SelfConv: {e!r}"[:300]))
                continue

            def props(doc):
                if "properties" in doc:
                    return doc["properties"]
                for d in list(doc.get("$defs", {}).values()) + list(doc.get("definitions", {}).values()):
                    if "properties" in d:
                        return d["properties"]
                return {}

            ps, pd = props(ss), props(ds)
            got_s = {k: ps.get("s", {}).get(k) for k in ("type", "items")}
            o = ps.get("o", {})
            o_ok = ("array" in (o.get("type") if isinstance(o.get("type"), list) else [o.get("type")]) and o.get("items") == {"type": "string"}) or any(a.get("type") == "array" and a.get("items") == {"type": "string"} for a in o.get("anyOf", []) + o.get("oneOf", []))
            got_l = pd.get("l", {})
            l_ok = got_l.get("type") == "array" and got_l.get("items", {}).get("type") == "array" and got_l["items"].get("items") == {"type": "integer"}
            if got_s != arr_s or not o_ok or not l_ok:
                st.violation(dict(base, signature={"kind": "self_containing_conversion", "version": vname}, what=f"SelfConv: serialization s={ps.get('s')} o={o}; deserialization l={got_l}; expected array of strings / nullable array of strings / array of arrays of integers"[:500]))
    import sys

    sys.modules.pop(mod.__name__, None)


def run_worlds(st: infra.Stats):
    try:
        run_self_containing_conversions(st)
    except Exception:
        import traceback

        st.violation({"signature": {"kind": "harness_error"}, "harness_error": True, "what": "self-containing conversions", "traceback": traceback.format_exc()[-2000:]})
    mod = exec_source(PRELUDE + WORLD_SRC)
    for name, (tp, exp_shared, exp_all, *only_side) in mod.EXPECT.items():
        for fn in (deserialization_schema, serialization_schema):
            if only_side and (only_side[0] == "ser") != (fn is serialization_schema):
                continue
            for all_refs, exp in ((False, exp_shared), (True, exp_all)):
                for vname, version in VERSIONS.items():
                    base = {"label": "world:" + name, "options": [fn.__name__, all_refs, vname]}
                    try:
                        s = json.loads(json.dumps(fn(tp, all_refs=all_refs, version=version)))
                    except Exception as e:
                        st.violation(dict(base, signature={"kind": "generation_exception", "exc": type(e).__name__, "world": name}, what=f"{name}: {e!r}"[:300]))
                        continue
                    external = None
                    if vname in ("oas3.0", "oas3.1"):
                        try:
                            external = json.loads(json.dumps(definitions_schema(**{"deserialization" if fn is deserialization_schema else "serialization": [tp]}, all_refs=all_refs, version=version)))
                        except Exception as e:
                            st.violation(dict(base, signature={"kind": "definitions_exception", "exc": type(e).__name__, "world": name}, what=f"{name}: definitions_schema raised {e!r}"[:300]))
                            continue
                    prefix = {"draft-07": "#/definitions/", "oas3.0": "#/components/schemas/", "oas3.1": "#/components/schemas/"}.get(vname, "#/$defs/")
                    check_schema_doc(s, vname, True, st, base, external, prefix)
                    defs_key = "definitions" if vname == "draft-07" else "$defs"
                    names = set(s.get(defs_key, {})) if external is None else set(external)
                    root = getattr(tp, "__name__", "-")
                    st.case("world", name, fn.__name__, all_refs, vname, tuple(sorted(names)))
                    if names != exp and names != exp - {root} and names != exp | {root}:
                        st.violation(dict(base, signature={"kind": "world_definitions", "world": name, "all_refs": all_refs}, what=f"{name}: definitions {sorted(names)} expected {sorted(exp)}", schema=json.dumps(s)[:1000]))
    for name, (tp, exc) in mod.REFUSED.items():
        for fn in (deserialization_schema, serialization_schema):
            for all_refs in (False, True):
                st.case("world-refused", name, fn.__name__, all_refs)
                try:
                    s = fn(tp, all_refs=all_refs)
                    st.violation({"label": "world:" + name, "signature": {"kind": "not_refused", "world": name}, "what": f"{name}: schema generated instead of {exc.__name__}: {json.dumps(s)[:300]}"})
                except exc:
                    pass
                except Exception as e:
                    st.violation({"label": "world:" + name, "signature": {"kind": "wrong_refusal", "world": name, "exc": type(e).__name__}, "what": f"{name}: raised {e!r} instead of {exc.__name__}"[:300]})
    # two distinct types sharing a name, one on each side of definitions_schema
    for name, (t1, t2, exc) in mod.REFUSED_BOTH.items():
        for all_refs in (False, True):
            for kw in ({"deserialization": [t1], "serialization": [t2]}, {"deserialization": [t2], "serialization": [t1]}, {"deserialization": [t1, t2]}, {"serialization": [t2, t1]}):
                st.case("world-refused-both", name, all_refs, tuple(kw))
                try:
                    d = definitions_schema(all_refs=all_refs, **kw)
                    if all_refs or len(kw) == 1:
                        st.violation({"label": "world:" + name, "signature": {"kind": "not_refused", "world": name, "sides": sorted(kw)}, "what": f"{name}: definitions_schema({sorted(kw)}, all_refs={all_refs}) merged two distinct types sharing a name: {json.dumps(d)[:300]}"})
                except exc:
                    pass
                except Exception as e:
                    st.violation({"label": "world:" + name, "signature": {"kind": "wrong_refusal", "world": name, "exc": type(e).__name__}, "what": f"{name}: raised {e!r} instead of {exc.__name__}"[:300]})
    st.count("worlds", len(mod.EXPECT) + len(mod.REFUSED) + len(mod.REFUSED_BOTH))


LISTS_SRC = '''
@dataclass
class LFoo:
    a: int = 0
@dataclass
class LBar:
    b: str = ""
@dataclass
class LHold:
    f: LFoo = field(default_factory=LFoo)
    g: Optional[LFoo] = None
@dataclass
class LGeo:
    lat: int = 0
@dataclass
class LAddr:
    geo: LGeo = field(default_factory=LGeo)   # a named type used once, inside a type shared by two roots
@dataclass
class LCust:
    addr: LAddr = field(default_factory=LAddr)
@dataclass
class LSupp:
    addr: LAddr = field(default_factory=LAddr)
def foo_to_bar(foo: LFoo) -> LBar: return LBar(str(foo.a))
def bar_from_foo(foo: LFoo) -> LBar: return LBar(str(foo.a))
SER_MENU = {"Cust": LCust, "Supp": LSupp, "Foo": LFoo, "Bar": LBar, "List[Foo]": List[LFoo], "Optional[Foo]": Optional[LFoo], "Dict[str,Foo]": Dict[str, LFoo], "Hold": LHold,
            "(Foo,foo_to_bar)": (LFoo, foo_to_bar), "(List[Foo],foo_to_bar)": (List[LFoo], foo_to_bar)}
DES_MENU = {"Cust": LCust, "Supp": LSupp, "Foo": LFoo, "Bar": LBar, "List[Bar]": List[LBar], "Optional[Bar]": Optional[LBar], "Dict[str,Bar]": Dict[str, LBar], "Hold": LHold,
            "(Bar,bar_from_foo)": (LBar, bar_from_foo), "(List[Bar],bar_from_foo)": (List[LBar], bar_from_foo)}
'''


def run_definition_lists(st: infra.Stats, tier: str):
    """definitions_schema over LISTS of entries, plain types and documented (type, dynamic conversion) pairs: every list of
    length <= 3 (thorough: 4) over a menu of 10 entries sharing classes. Oracle: with all_refs=True the definitions are
    the union of the definitions of each entry alone (same bodies); with all_refs=False they do not depend on the order of
    the list; every $ref of the schema of an entry generated with a ref_factory resolves in them (all_refs=True)."""
    import itertools

    mod = exec_source(PRELUDE + LISTS_SRC)
    prefix = "#/components/schemas/"
    for side, menu, fn in (("serialization", mod.SER_MENU, serialization_schema), ("deserialization", mod.DES_MENU, deserialization_schema)):
        alone = {}
        ext_refs = {}
        for n, e in menu.items():
            alone[n] = json.loads(json.dumps(definitions_schema(**{side: [e]}, all_refs=True)))
            tp, conv = e if isinstance(e, tuple) else (e, None)
            refs: List[str] = []
            collect_refs(json.loads(json.dumps(fn(tp, conversion=conv, all_refs=True, ref_factory=lambda r: prefix + r, with_schema=False))), refs)
            ext_refs[n] = {r[len(prefix):] for r in refs}
        maxlen = 4 if tier == "thorough" else 3
        for k in range(2, maxlen + 1):
            for names in itertools.permutations(menu, k):
                entries = [menu[n] for n in names]
                base = {"label": "lists:" + side, "options": [side, list(names)]}
                st.case("definition_lists", side, names)
                try:
                    d_all = json.loads(json.dumps(definitions_schema(**{side: entries}, all_refs=True)))
                    d_min = json.loads(json.dumps(definitions_schema(**{side: entries}, all_refs=False)))
                    d_min_sorted = json.loads(json.dumps(definitions_schema(**{side: [menu[n] for n in sorted(names)]}, all_refs=False)))
                except Exception as e:
                    st.violation(dict(base, signature={"kind": "definitions_list_exception", "exc": type(e).__name__, "side": side}, what=f"definitions_schema({side}={list(names)}) raised {e!r}"[:300]))
                    continue
                union: Dict[str, Any] = {}
                for n in names:
                    union.update(alone[n])
                if d_all != union:
                    st.violation(dict(base, signature={"kind": "definitions_list_union", "side": side, "missing": sorted(set(union) - set(d_all))[:2], "extra": sorted(set(d_all) - set(union))[:2]}, what=f"definitions_schema({side}={list(names)}, all_refs=True) = {sorted(d_all)}, the entries alone give {sorted(union)}"[:400]))
                dangling = sorted({r for n in names for r in ext_refs[n]} - set(d_all))
                if dangling:
                    st.violation(dict(base, signature={"kind": "definitions_list_dangling", "side": side, "refs": dangling[:2]}, what=f"definitions_schema({side}={list(names)}, all_refs=True) lacks {dangling} referenced by the schemas of its entries"[:400]))
                if not any(isinstance(e, tuple) for e in entries):
                    # only named types used more than once are extracted: the same definitions as the inline $defs of one
                    # type holding every entry (modulo the entries themselves, which definitions_schema always names)
                    roots = {getattr(e, "__name__", None) for e in entries}
                    inline = json.loads(json.dumps(fn(Tuple[tuple(entries)], all_refs=False, with_schema=False))).get("$defs", {})
                    a, b = {k: v for k, v in d_min.items() if k not in roots}, {k: v for k, v in inline.items() if k not in roots}
                    if a != b:
                        st.violation(dict(base, signature={"kind": "definitions_list_extraction", "side": side, "extra": sorted(set(a) - set(b))[:2], "missing": sorted(set(b) - set(a))[:2]}, what=f"definitions_schema({side}={list(names)}, all_refs=False) extracts {sorted(a)} (besides the entries), the inline $defs of Tuple[entries] are {sorted(b)}"[:400]))
                if d_min != d_min_sorted:
                    st.violation(dict(base, signature={"kind": "definitions_list_order", "side": side}, what=f"definitions_schema({side}=...) depends on the order of the list: {sorted(d_min)} for {list(names)}, {sorted(d_min_sorted)} for {sorted(names)}"[:400]))
    import sys

    sys.modules.pop(mod.__name__, None)


def work(tier, widx, nworkers, st, extra):
    import os

    signal.signal(signal.SIGALRM, _alarm)
    if widx == 0 and os.environ.get("VERIF_ONLY") in (None, "", "world"):
        run_worlds(st)
    if widx == (1 % nworkers) and os.environ.get("VERIF_ONLY") in (None, "", "world", "lists"):
        try:
            run_definition_lists(st, tier)
        except Exception:
            import traceback

            st.violation({"signature": {"kind": "harness_error"}, "harness_error": True, "what": "definition lists", "traceback": traceback.format_exc()[-2000:]})
    for i, label, spec in dc.my_types(tier, widx, nworkers):
        signal.alarm(60)
        try:
            run_type(i, label, spec, tier, st)
        except Timeout:
            st.violation({"label": label, "signature": {"kind": "timeout", "shape": dc.shape_of(label)}, "what": "schema generation did not terminate within 60 s"})
        finally:
            signal.alarm(0)


def main(tier: str, t0: float) -> int:
    st = infra.run_pool("vf.checks.c17", tier)
    return infra.finish(
        PROP,
        tier,
        st,
        t0,
        rule=RULE,
        coverage_extra={"exhaustive": True, "bounds": {"nesting": 2}, "oracle": "jsonschema " + jsonschema.__version__ + " meta-schemas"},
        assumptions=[
            "the declared dialect is read from $schema with scheme and trailing # normalised",
            "OpenAPI documents carry no $defs: their $refs are resolved against definitions_schema of the same version",
        ],
    )


def replay(path: str) -> int:
    v = json.load(open(path))
    st = infra.Stats()
    signal.signal(signal.SIGALRM, _alarm)
    if v["label"].startswith("world:"):
        run_worlds(st)
    elif v["label"].startswith("lists:"):
        run_definition_lists(st, "thorough")
    else:
        for lab, spec in gen_types("thorough"):
            if lab == v["label"]:
                run_type(1, lab, spec, "thorough", st)
                break
    hits = [x for x in st.violations if x.get("signature") == v.get("signature")]
    for x in hits[:3]:
        print(f"VIOLATION property=C17 replay={path}")
        print(" ", x["what"])
    return 1 if hits else 0
