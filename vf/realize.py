"""TypeSpec -> Python source -> real annotation (exec'd into a fresh synthetic module).

The source is exactly what a user would write; it is kept in linecache (inspect.getsource
works, which the validator dependency finder needs) and copied into replay artefacts."""
from __future__ import annotations

import itertools
import linecache
import sys
import types
from typing import Any, Dict, List, Tuple

from .tast import (
    AnyT,
    Coll,
    Con,
    EnumT,
    F,
    Gen,
    Lit,
    MapT,
    NewT,
    Obj,
    Prim,
    Ref,
    Std,
    T,
    Tup,
    TVar,
    Uni,
    Unsup,
)

_counter = itertools.count()

PRELUDE = """\
import re, typing, dataclasses, enum, collections, collections.abc, uuid, datetime, decimal, pathlib, ipaddress
from dataclasses import dataclass, field, InitVar
from enum import Enum
from typing import (Any, Optional, Union, List, Sequence, Set, FrozenSet, Tuple, Dict, Mapping,
    AbstractSet, Collection, NamedTuple, TypedDict, NewType, Literal, Generic, TypeVar, Annotated, MutableMapping, MutableSequence)
import apischema
from apischema import (alias, schema, validator, serialized, order, Undefined, UndefinedType,
    ValidationError, dependent_required, discriminator, type_name, deserializer, serializer)
from apischema.fields import with_fields_set, fields_set, set_fields, unset_fields, is_set
from apischema.metadata import (flatten, properties, required, skip, none_as_undefined, init_var,
    fall_back_on_default, default_as_set, conversion, post_init)
from apischema.metadata import validators as validators_metadata
NoneType = type(None)
LOG = []
SWITCH = {}
def _upper(s): return s.upper()
def _prefix(s): return "p_" + s
"""

PRIM_SRC = {"int": "int", "float": "float", "str": "str", "bool": "bool", "none": "NoneType", "undefined": "UndefinedType"}
COLL_SRC = {
    "list": "List",
    "seq": "Sequence",
    "set": "Set",
    "frozenset": "FrozenSet",
    "absset": "AbstractSet",
    "collection": "Collection",
    "mutseq": "MutableSequence",
    "blist": "list",
    "bset": "set",
}
STD_SRC = {
    "uuid": "uuid.UUID",
    "date": "datetime.date",
    "datetime": "datetime.datetime",
    "time": "datetime.time",
    "decimal": "decimal.Decimal",
    "bytes": "bytes",
    "path": "pathlib.Path",
    "ipv4": "ipaddress.IPv4Address",
    "ipv6": "ipaddress.IPv6Address",
    "ipv4if": "ipaddress.IPv4Interface",
    "ipv4net": "ipaddress.IPv4Network",
    "ipv6if": "ipaddress.IPv6Interface",
    "ipv6net": "ipaddress.IPv6Network",
    "pattern": "re.Pattern",
    "deque_int": "collections.deque[int]",
}


def cons_src(cons) -> str:
    parts = []
    for k, v in cons:
        parts.append(f"{k}={v!r}")
    return "schema(" + ", ".join(parts) + ")"


class Realizer:
    def __init__(self, env=None):
        self.lines: List[str] = []
        self.defined: Dict[str, Any] = {}
        self.env = env or {}
        self.completed = set()

    # -- expressions -----------------------------------------------------------------
    def expr(self, t: T) -> str:
        if isinstance(t, Prim):
            return PRIM_SRC[t.kind]
        if isinstance(t, AnyT):
            return "Any"
        if isinstance(t, Lit):
            return "Literal[" + ", ".join(repr(v) for v in t.values) + "]"
        if isinstance(t, EnumT):
            self.define_enum(t)
            return t.name
        if isinstance(t, NewT):
            if t.name not in self.defined:
                base = self.expr(t.base)
                self.defined[t.name] = t
                self.lines.append(f"{t.name} = NewType({t.name!r}, {base})")
            return t.name
        if isinstance(t, Con):
            return f"Annotated[{self.expr(t.base)}, {cons_src(t.cons)}]"
        if isinstance(t, Uni) and t.pep604:
            return "(" + " | ".join("None" if a == Prim("none") else self.expr(a) for a in t.alts) + ")"
        if isinstance(t, Uni):
            if len(t.alts) == 2 and t.alts[1] == Prim("none") and t.alts[0] != Prim("none"):
                return f"Optional[{self.expr(t.alts[0])}]"
            return "Union[" + ", ".join(self.expr(a) for a in t.alts) + "]"
        if isinstance(t, Coll):
            if t.kind == "vartuple":
                return f"Tuple[{self.expr(t.elt)}, ...]"
            return f"{COLL_SRC[t.kind]}[{self.expr(t.elt)}]"
        if isinstance(t, Tup):
            if not t.elts:
                return "Tuple[()]"
            return "Tuple[" + ", ".join(self.expr(a) for a in t.elts) + "]"
        if isinstance(t, MapT):
            head = {"dict": "Dict", "mapping": "Mapping", "bdict": "dict", "mutmapping": "MutableMapping"}[t.kind]
            return f"{head}[{self.expr(t.k)}, {self.expr(t.v)}]"
        if isinstance(t, Ref):
            if t.name not in self.defined and t.name in self.env:
                self.define_obj(self.env[t.name])
            return t.name if t.name in self.completed else repr(t.name)
        if isinstance(t, Obj):
            self.define_obj(t)
            return t.name
        if isinstance(t, Gen):
            self.define_obj(t.obj)
            return f"{t.obj.name}[" + ", ".join(self.expr(a) for a in t.args) + "]"
        if isinstance(t, TVar):
            if t.name not in self.defined:
                self.defined[t.name] = t
                self.lines.append(f"{t.name} = TypeVar({t.name!r})")
            return t.name
        if isinstance(t, Std):
            return STD_SRC[t.kind]
        if isinstance(t, Unsup):
            return f"Annotated[{self.expr(t.base)}, apischema.Unsupported]"
        raise TypeError(t)

    def define_enum(self, t: EnumT):
        if t.name in self.defined:
            return
        self.defined[t.name] = t
        self.lines.append(f"class {t.name}(Enum):")
        for n, v in t.members:
            self.lines.append(f"    {n} = {v!r}")

    def field_metadata(self, f: F) -> List[str]:
        md = []
        if f.alias is not None and not f.override:
            md.append(f"alias({f.alias!r}, override=False)")
        elif f.alias is not None:
            md.append(f"alias({f.alias!r})")
        elif not f.override:
            md.append("alias(override=False)")
        if f.required:
            md.append("required")
        if f.flatten:
            md.append("flatten")
        if f.props is not None:
            md.append("properties" if f.props == "" else ("properties(...)" if f.props_infer else f"properties(pattern={f.props!r})"))
        if f.skip == "all":
            md.append("skip")
        elif f.skip == "deser":
            md.append("skip(deserialization=True)")
        elif f.skip == "ser":
            md.append("skip(serialization=True)")
        opts = []
        if f.ser_if:
            opts.append(f"serialization_if={f.ser_if}")
        if f.ser_default:
            opts.append("serialization_default=True")
        if opts:
            md.append("skip(" + ", ".join(opts) + ")")
        if f.none_as_undefined:
            md.append("none_as_undefined")
        if f.fbod:
            md.append("fall_back_on_default")
        if f.default_as_set:
            md.append("default_as_set")
        if f.cons:
            md.append(cons_src(f.cons))
        if f.order:
            md.append(f.order)
        if f.validators:
            md.append("validators_metadata(" + ", ".join(f.validators) + ")")
        return md

    def define_obj(self, o: Obj):
        if o.name in self.defined:
            return
        self.defined[o.name] = o
        for b in o.base_specs:
            self.define_obj(b)
        # first make sure everything the fields mention is defined (may recurse)
        field_exprs = []
        for f in o.fields:
            e = self.expr(f.type)
            field_exprs.append(e)
        for p in o.generic_params:
            self.expr(TVar(p))
        L = self.lines
        decos = []
        if o.order_src:
            decos.append(f"@{o.order_src}")
        if o.cons:
            decos.append("@" + cons_src(o.cons))
        if o.class_aliaser:
            decos.append(f"@alias(_{o.class_aliaser})")
        if o.fields_set:
            decos.append("@with_fields_set")
        bases = list(o.bases)
        if o.generic_params:
            bases.append("Generic[" + ", ".join(o.generic_params) + "]")
        if o.kind == "dataclass":
            L.extend(decos)
            L.append("@dataclass(frozen=True)" if o.frozen else "@dataclass(slots=True)" if o.slots else ("@dataclass" if o.dc_init else "@dataclass(init=False)"))
            L.append(f"class {o.name}" + (f"({', '.join(bases)})" if bases else "") + ":")
            empty = True
            for f, e in zip(o.fields, field_exprs):
                if f.inherited:
                    continue
                empty = False
                ann = f"InitVar[{e}]" if f.initvar else e
                md = self.field_metadata(f)
                if f.alias_annotated and md and md[0].startswith("alias("):
                    ann = f"Annotated[{ann}, {md[0]}]"
                    md = md[1:]
                args = []
                if f.has_default:
                    args.append(f"default={f.default}")
                if f.factory is not None:
                    args.append(f"default_factory={f.factory}")
                if not f.init:
                    args.append("init=False")
                if md:
                    args.append("metadata=" + " | ".join(md))
                if args == [f"default={f.default}"] and f.has_default:
                    L.append(f"    {f.name}: {ann} = {f.default}")
                elif args:
                    L.append(f"    {f.name}: {ann} = field({', '.join(args)})")
                else:
                    L.append(f"    {f.name}: {ann}")
            if o.post_init:
                empty = False
                L.append(o.post_init)
            for m in o.methods:
                if m.inherited:
                    continue
                empty = False
                args = []
                if m.alias:
                    args.append(repr(m.alias))
                if m.order:
                    args.append(f"order={m.order}")
                L.append(f"    @serialized({', '.join(args)})" if args else "    @serialized")
                if m.prop:
                    L.append("    @property")
                L.append(f"    def {m.name}(self) -> {self.expr(m.ret)}:")
                L.append(f"        return {m.body}")
            if o.extra_src:
                empty = False
                L.append(o.extra_src)
            if empty:
                L.append("    pass")
            if o.dep_req:
                mapping = ", ".join(repr(k) + ": " + repr(list(r)) for k, r in o.dep_req)
                L.append(f"dependent_required({{{mapping}}}, owner={o.name})")
        elif o.kind == "namedtuple":
            L.extend(decos)
            L.append(f"class {o.name}(NamedTuple):")
            for f, e in zip(o.fields, field_exprs):
                md = self.field_metadata(f)
                ann = f"Annotated[{e}, {' | '.join(md)}]" if md else e
                if f.has_default:
                    L.append(f"    {f.name}: {ann} = {f.default}")
                else:
                    L.append(f"    {f.name}: {ann}")
            if o.extra_src:
                L.append(o.extra_src)
        elif o.kind == "typeddict":
            L.extend(decos)
            tb = list(o.bases) or ["TypedDict"]
            L.append(f"class {o.name}({', '.join(tb)}, total={o.total}):")
            own = [(f, e) for f, e in zip(o.fields, field_exprs) if not getattr(f, "_inherited", False)]
            if not own:
                L.append("    pass")
            for f, e in own:
                md = self.field_metadata(f)
                ann = f"Annotated[{e}, {' | '.join(md)}]" if md else e
                L.append(f"    {f.name}: {ann}")
        else:
            raise TypeError(o.kind)
        self.completed.add(o.name)


class Realized:
    """result of realising one spec: the module, the annotation, the source"""

    def __init__(self, spec: T, module: types.ModuleType, tp: Any, source: str, expr: str):
        self.spec = spec
        self.module = module
        self.tp = tp
        self.source = source
        self.expr = expr

    def ns(self, name: str) -> Any:
        return getattr(self.module, name)

    def drop(self):
        sys.modules.pop(self.module.__name__, None)
        linecache.cache.pop(self.module.__file__, None)


def clear_typing_caches():
    """typing caches generic aliases by (==, hash) of their parameters, and Union[A, B] ==
    Union[B, A]: List[Union[int, str]] evaluated after List[Union[str, int]] returns the *earlier*
    object, whose alternatives are in the other order.  Every generated module starts from empty
    typing caches so that the realised annotation is the one the source text spells."""
    import typing

    for f in getattr(typing, "_cleanups", ()):
        try:
            f()
        except Exception:
            pass


def exec_source(source: str, name: str = None) -> types.ModuleType:
    # always: besides union order, typing caches generic aliases over *string* forward references
    # (List["O4"]) together with the class they were first resolved to, in another generated module
    clear_typing_caches()
    n = next(_counter)
    name = name or f"vfgen_{n}"
    filename = f"<{name}>"
    mod = types.ModuleType(name)
    mod.__file__ = filename
    sys.modules[name] = mod
    linecache.cache[filename] = (len(source), None, source.splitlines(True), filename)
    exec(compile(source, filename, "exec"), mod.__dict__)
    return mod


def realize(spec: T, extra_src: str = "", pre_src: str = "", env=None) -> Realized:
    r = Realizer(env)
    expr = r.expr(spec)
    source = PRELUDE + pre_src + "\n".join(r.lines) + "\n" + extra_src + f"\nTP = {expr}\n"
    mod = exec_source(source)
    return Realized(spec, mod, mod.TP, source, expr)


def realize_many(specs: Dict[str, T], extra_src: str = "", pre_src: str = "") -> Tuple[types.ModuleType, Dict[str, Any], str]:
    r = Realizer()
    exprs = {k: r.expr(s) for k, s in specs.items()}
    source = PRELUDE + pre_src + "\n".join(r.lines) + "\n" + extra_src + "\n" + "\n".join(f"TP_{k} = {e}" for k, e in exprs.items()) + "\n"
    mod = exec_source(source)
    return mod, {k: getattr(mod, f"TP_{k}") for k in specs}, source
