"""Shared E1 machinery for the deserialization checks (C01, C02, C03, C08, C14...):
type enumeration split over workers, realisation, option vectors, implementation runner."""
from __future__ import annotations

import os
from typing import Any, Callable, Dict, Iterator, List, Optional, Tuple

from .. import world  # noqa: F401
from ..grammar import build_env, gen_types, well_formed
from ..realize import Realized, realize
from ..refmodel.deser import ALIASERS, Ctx, E, Err, Ok, UNSPEC, conform, resolve, field_ext_name, deser_fields
from ..tast import Coll, Con, Gen, MapT, NewT, Obj, Prim, T, Tup, Uni, node_kind, short

import apischema
from apischema import ValidationError
from apischema.utils import to_camel_case


def _ident(s):
    return s


def _custom(s):
    return "x-" + s


IMPL_ALIASERS = {"id": _ident, "camel": to_camel_case, "custom": _custom}

FULL_OPTS = [(ap, fb, al) for ap in (False, True) for fb in (False, True) for al in ("id", "camel", "custom")]
PAIR_OPTS = [(False, False, "id"), (True, False, "camel"), (False, True, "custom"), (True, True, "id")]


def my_types(tier: str, widx: int, nworkers: int) -> Iterator[Tuple[int, str, T]]:
    only = os.environ.get("VERIF_ONLY")
    for i, (label, spec) in enumerate(gen_types(tier)):
        if i % nworkers != widx:
            continue
        if only and only not in label:
            continue
        yield i, label, spec


def level_of(label: str) -> int:
    """nesting level of a grammar label: atom -> 0, ctor[atom] -> 1, ctor[ctor[atom]] -> 2"""
    if label.startswith("atom:"):
        return 0
    return label.count("[") if not label.startswith("union[") else 1


def shape_of(label: str) -> str:
    """label without the atom: the (outer, inner) constructor pair"""
    parts = label.replace("]", "").split("[")
    return "[".join(parts[:-1]) if len(parts) > 1 else parts[0]


def run_impl(method: Callable[[Any], Any], d: Any):
    """('ok', value) | ('err', ValidationError) | ('exc', exception)"""
    try:
        return "ok", method(d)
    except ValidationError as e:
        return "err", e
    except RecursionError as e:
        return "exc", e
    except Exception as e:  # noqa
        return "exc", e


def impl_errors(e: ValidationError) -> List[Tuple[tuple, str]]:
    return [(tuple(x["loc"]), x["err"]) for x in e.errors]


def node_at(spec: T, loc: tuple, ctx: Ctx) -> str:
    """kind of the spec node at an error location (best effort; stops at unions)"""
    t = resolve(spec, ctx)
    for key in loc:
        while isinstance(t, (NewT, Con)):
            t = resolve(t.base, ctx)
        if isinstance(t, Uni):
            alts = [a for a in t.alts if a != Prim("none") and a != Prim("undefined")]
            if len(alts) == 1:
                t = resolve(alts[0], ctx)
                while isinstance(t, (NewT, Con)):
                    t = resolve(t.base, ctx)
            else:
                return "Uni/" + "|".join(node_kind(resolve(a, ctx)) for a in t.alts)
        if isinstance(t, Coll):
            t = resolve(t.elt, ctx)
        elif isinstance(t, Tup):
            if isinstance(key, int) and key < len(t.elts):
                t = resolve(t.elts[key], ctx)
            else:
                return "Tup/?"
        elif isinstance(t, MapT):
            t = resolve(t.v, ctx)
        elif isinstance(t, (Obj, Gen)):
            o = t.obj if isinstance(t, Gen) else t
            c2 = ctx
            if isinstance(t, Gen):
                sub = dict(ctx.tvars)
                sub.update(zip(o.generic_params, t.args))
                c2 = Ctx(**{**ctx.__dict__, "tvars": sub})
            nxt = None
            for f in deser_fields(o, c2):
                if not f.flatten and f.props is None and field_ext_name(o, f, c2) == key:
                    nxt = f.type
            if nxt is None:
                return "Obj/?"
            t = resolve(nxt, c2)
            ctx = c2
        else:
            return node_kind(t) + "/?"
    while isinstance(t, (NewT, Con)):
        if isinstance(t, Con):
            return "Con(" + node_kind(resolve(t.base, ctx)) + ")"
        t = resolve(t.base, ctx)
    return node_kind(t)


def dclass(d) -> str:
    return type(d).__name__


def get_loc(d, loc):
    try:
        for k in loc:
            d = d[k]
        return d
    except Exception:
        return None


class Case:
    """one realised type with helpers"""

    def __init__(self, label: str, spec: T):
        self.label = label
        self.spec = spec
        self.env = build_env(spec)
        self.rz: Optional[Realized] = None

    def realize(self) -> Realized:
        if self.rz is None:
            self.rz = realize(self.spec)
        return self.rz

    def ctx(self, ap=False, fb=False, al="id", **kw) -> Ctx:
        return Ctx(additional_properties=ap, fall_back_on_default=fb, aliaser=al, env=self.env, **kw)

    def method(self, ap=False, fb=False, al="id", **kw):
        return apischema.deserialization_method(
            self.realize().tp,
            additional_properties=ap,
            fall_back_on_default=fb,
            aliaser=IMPL_ALIASERS[al],
            **kw,
        )

    def drop(self):
        if self.rz is not None:
            self.rz.drop()
            self.rz = None


def periodic_reset(i: int, every: int = 200):
    if i % every == 0:
        apischema.cache.reset()
